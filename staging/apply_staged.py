#!/usr/bin/env python3
"""Apply the staged harness changes (run only while no batch is using the harness)."""
import shutil
H='/verif/harness/'
# ---- gridx: c03z part, DShape Clone
shutil.copy('/verif/staging/c03z.rs', H+'gridx/src/c03z.rs')
s=open(H+'gridx/src/shapes.rs').read()
if 'impl Clone for $name' not in s:
    s=s.replace('''        impl PartialEq for $name {
            fn eq(&self, o: &Self) -> bool {
                self.0 == o.0
            }
        }
        impl std::fmt::Debug for $name {''','''        impl PartialEq for $name {
            fn eq(&self, o: &Self) -> bool {
                self.0 == o.0
            }
        }
        impl Clone for $name {
            fn clone(&self) -> Self {
                $name(self.0)
            }
        }
        impl std::fmt::Debug for $name {''')
    open(H+'gridx/src/shapes.rs','w').write(s)
m=open(H+'gridx/src/main.rs').read()
if 'mod c03z;' not in m:
    m=m.replace("mod c05;\n","mod c03z;\nmod c05;\n")
    m=m.replace('''        "c05" => c05::run(&tier, only),''','''        "c05" => c05::run(&tier, only),
        "c03z" => c03z::run(&tier),''')
    open(H+'gridx/src/main.rs','w').write(m)
# ---- gridx c10: constructors under scripted iterators
c=open(H+'gridx/src/c10.rs').read()
if 'fn ctor_scripts' not in c:
    c=c.replace('''pub fn run(tier: &str) -> Vec<Grid> {''','''/// every ThinArc obtainable from the safe constructors records the real slice length, whatever an
/// ExactSizeIterator claims (each `len()` answer scripted separately)
fn ctor_scripts(g: &mut Grid) {
    use crate::elems::*;
    let vals = [0usize, 1, 2, 3, 5];
    for &actual in &[0usize, 1, 2, 3] {
        for &a in &vals {
            for &b in &vals {
                for &c in &vals {
                    let case = format!("ThinArc::from_header_and_iter with {} real items and len() answering {:?}", actual, [a, b, c]);
                    vrt::begin_execution();
                    g.case(format!("ctor|{}|{}|{}|{}", actual, a, b, c), || case.clone());
                    let items: Vec<ET> = cap(|| (0..actual).map(|i| ET::make(i as u32)).collect());
                    let mut it = arena::suspend(|| Script::new(Vec::new(), Regime::Exact));
                    it.items = arena::suspend(|| items.into());
                    it.claims = arena::suspend(|| vec![a, b, c]);
                    let r = catch(|| cap(|| ThinArc::from_header_and_iter(HT::make(), it)));
                    if let Ok(t) = r {
                        // the recorded length is read before anything walks the slice
                        let rec = t.header.length;
                        let fat_len = t.with_arc(|f| f.slice.len());
                        if rec != actual || fat_len != actual {
                            g.fail("ctor-length-mismatch", &case, format!("constructor returned a ThinArc recording length {} (fat view {}), the iterator produced {} items", rec, fat_len, actual));
                            std::mem::forget(t);
                            continue;
                        }
                        cap(|| drop(t));
                    }
                }
            }
        }
    }
}

pub fn run(tier: &str) -> Vec<Grid> {''')
    c=c.replace('''    vec![g]
}''','''    let mut c = Grid::new("c10.ctor", "ThinArc::from_header_and_iter under every 3-answer script of ExactSizeIterator::len() over {0,1,2,3,5} x real item count 0..=3: a returned ThinArc records the real length");
    ctor_scripts(&mut c);
    vec![g, c]
}''')
    open(H+'gridx/src/c10.rs','w').write(c)
print("staged changes applied")
