//! mwalk — every operation sequence up to a depth, over every handle kind, executed on the real
//! crate by the Miri interpreter (Tree Borrows): besides a small reference model (owners, value,
//! destructor runs) the oracle is Miri itself — any undefined behaviour (use after free, a
//! pointer used outside what it was derived from, misaligned or uninitialised reads, invalid
//! values, mismatched deallocation) stops the run at the sequence in flight.
use std::cell::RefCell;
use triomphe::{Arc, ArcBorrow, ArcUnion, HeaderSlice, HeaderWithLength, OffsetArc, ThinArc, UniqueArc};

thread_local! {
    static DROPS: RefCell<Vec<u32>> = const { RefCell::new(Vec::new()) };
    static NEXT: std::cell::Cell<u32> = const { std::cell::Cell::new(1) };
}
#[derive(Debug)]
pub struct P {
    id: u32,
    v: u32,
    _pad: [u64; 2],
}
impl P {
    fn new() -> P {
        let id = NEXT.with(|n| n.replace(n.get() + 1));
        P { id, v: 0, _pad: [id as u64; 2] }
    }
}
impl Clone for P {
    fn clone(&self) -> P {
        let mut p = P::new();
        p.v = self.v;
        p
    }
}
impl Drop for P {
    fn drop(&mut self) {
        DROPS.with(|d| d.borrow_mut().push(self.id));
    }
}
type Fat = Arc<HeaderSlice<HeaderWithLength<P>, [u16]>>;
type Thin = ThinArc<P, u16>;

enum H {
    A(Arc<P>),
    O(OffsetArc<P>),
    U1(ArcUnion<P, u8>),
    U2(ArcUnion<u8, P>),
    R(*const P),
    X(UniqueArc<P>),
    F(Fat),
    T(Thin),
    Rt(*const std::ffi::c_void),
}
#[derive(Clone, Copy, PartialEq, Eq, Debug)]
enum K {
    A,
    O,
    U1,
    U2,
    R,
    X,
    F,
    T,
    Rt,
}
impl H {
    fn kind(&self) -> K {
        match self {
            H::A(_) => K::A,
            H::O(_) => K::O,
            H::U1(_) => K::U1,
            H::U2(_) => K::U2,
            H::R(_) => K::R,
            H::X(_) => K::X,
            H::F(_) => K::F,
            H::T(_) => K::T,
            H::Rt(_) => K::Rt,
        }
    }
    /// (payload id, value, count) as seen through this handle
    fn look(&self) -> (u32, u32, usize) {
        match self {
            H::A(a) => (a.id, a.v, Arc::count(a)),
            H::O(o) => (o.id, o.v, OffsetArc::strong_count(o)),
            H::U1(u) => {
                let b = u.as_first().unwrap();
                (b.id, b.v, ArcUnion::strong_count(u))
            }
            H::U2(u) => {
                let b = u.as_second().unwrap();
                (b.id, b.v, ArcUnion::strong_count(u))
            }
            H::R(p) => {
                let b = unsafe { ArcBorrow::from_ptr(*p) };
                (b.id, b.v, ArcBorrow::strong_count(&b))
            }
            H::X(x) => (x.id, x.v, 1),
            H::F(f) => (f.header.header.id, f.header.header.v + (f.slice.len() as u32 - 2) + (f.slice[1] as u32 - 9), Arc::count(f)),
            H::T(t) => (t.header.header.id, t.header.header.v + (t.slice.len() as u32 - 2) + (t.slice[1] as u32 - 9), ThinArc::strong_count(t)),
            H::Rt(p) => {
                let t = std::mem::ManuallyDrop::new(unsafe { Thin::from_raw(*p) });
                (t.header.header.id, t.header.header.v, ThinArc::strong_count(&t))
            }
        }
    }
    fn release(self) {
        match self {
            H::R(p) => drop(unsafe { Arc::from_raw(p) }),
            H::Rt(p) => drop(unsafe { Thin::from_raw(p) }),
            other => drop(other),
        }
    }
}

#[derive(Clone, Copy, Debug, PartialEq, Eq)]
enum Op {
    New,
    NewThin,
    NewUnique,
    Clone(usize),
    CloneArc(usize),
    Drop(usize),
    Conv(usize, K),
    GetMutW(usize),
    MakeMutW(usize),
    TryUnwrap(usize),
    Callback(usize),
    BorrowClone(usize),
    PtrEq(usize, usize),
    /// hs[i].clone_from(&hs[j]) for two handles of the same kind
    CloneFrom(usize, usize),
}

struct Model {
    id: u32,
    v: u32,
    owners: usize,
}
struct Run {
    hs: Vec<(H, usize)>,
    allocs: Vec<Model>,
    viol: Vec<String>,
}
const MAX_H: usize = 3;
const MAX_ALLOC: usize = 3;

impl Run {
    fn fail(&mut self, m: String) {
        self.viol.push(m);
    }
    fn push(&mut self, h: H, a: usize) {
        self.hs.push((h, a));
    }
    fn new_alloc(&mut self, id: u32, v: u32) -> usize {
        self.allocs.push(Model { id, v, owners: 1 });
        self.allocs.len() - 1
    }
    /// ops valid in the current state (the interpreter's own bookkeeping decides)
    fn enabled(&self) -> Vec<Op> {
        let mut v = vec![];
        let n = self.hs.len();
        let live_allocs = self.allocs.iter().filter(|a| a.owners > 0).count();
        if n < MAX_H && live_allocs < 2 && self.allocs.len() < MAX_ALLOC {
            v.push(Op::New);
            v.push(Op::NewThin);
            v.push(Op::NewUnique);
        }
        for i in 0..n {
            let k = self.hs[i].0.kind();
            v.push(Op::Drop(i));
            if n < MAX_H {
                if !matches!(k, K::X | K::R | K::Rt) {
                    v.push(Op::Clone(i));
                }
                if matches!(k, K::O | K::U1 | K::U2 | K::R | K::T) {
                    v.push(Op::CloneArc(i));
                }
                if matches!(k, K::A | K::O | K::T | K::U1 | K::U2) {
                    v.push(Op::Callback(i));
                }
                if matches!(k, K::A | K::O) {
                    v.push(Op::BorrowClone(i));
                }
            }
            let tos: &[K] = match k {
                K::A => &[K::O, K::R, K::U1, K::U2, K::X],
                K::O => &[K::A],
                K::R => &[K::A],
                K::X => &[K::A],
                K::F => &[K::T],
                K::T => &[K::F, K::Rt],
                K::Rt => &[K::T],
                _ => &[],
            };
            for &t in tos {
                v.push(Op::Conv(i, t));
            }
            if matches!(k, K::A | K::F | K::T | K::X) {
                v.push(Op::GetMutW(i));
            }
            if matches!(k, K::A | K::O) && self.allocs.len() < MAX_ALLOC {
                v.push(Op::MakeMutW(i));
            }
            if k == K::A {
                v.push(Op::TryUnwrap(i));
            }
            for j in i + 1..n {
                if self.hs[j].0.kind() == k && matches!(k, K::A | K::O | K::T | K::U1) {
                    v.push(Op::PtrEq(i, j));
                }
            }
            for j in 0..n {
                if j != i && self.hs[j].0.kind() == k && matches!(k, K::A | K::O | K::T | K::F | K::U1 | K::U2) {
                    v.push(Op::CloneFrom(i, j));
                }
            }
        }
        v
    }
    fn step(&mut self, op: Op) {
        match op {
            Op::New => {
                let a = Arc::new(P::new());
                let al = self.new_alloc(a.id, 0);
                self.push(H::A(a), al);
            }
            Op::NewUnique => {
                let mut x = UniqueArc::new(P::new());
                x.v = 5;
                let al = self.new_alloc(x.id, 5);
                self.push(H::X(x), al);
            }
            Op::NewThin => {
                let t: Thin = ThinArc::from_header_and_iter(P::new(), [7u16, 9].into_iter());
                let al = self.new_alloc(t.header.header.id, 0);
                self.push(H::T(t), al);
            }
            Op::Clone(i) => {
                let al = self.hs[i].1;
                let h = match &self.hs[i].0 {
                    H::A(a) => H::A(a.clone()),
                    H::O(o) => H::O(o.clone()),
                    H::U1(u) => H::U1(u.clone()),
                    H::U2(u) => H::U2(u.clone()),
                    H::F(f) => H::F(f.clone()),
                    H::T(t) => H::T(t.clone()),
                    _ => unreachable!(),
                };
                self.allocs[al].owners += 1;
                self.push(h, al);
            }
            Op::CloneArc(i) => {
                let al = self.hs[i].1;
                let h = match &self.hs[i].0 {
                    H::O(o) => H::A(o.clone_arc()),
                    H::U1(u) => H::A(u.as_first().unwrap().clone_arc()),
                    H::U2(u) => H::A(u.as_second().unwrap().clone_arc()),
                    H::R(p) => H::A(unsafe { ArcBorrow::from_ptr(*p) }.clone_arc()),
                    H::T(t) => H::F(t.with_arc(|a| Arc::clone(a))),
                    _ => unreachable!(),
                };
                self.allocs[al].owners += 1;
                self.push(h, al);
            }
            Op::Drop(i) => {
                let (h, al) = self.hs.remove(i);
                let before = DROPS.with(|d| d.borrow().len());
                h.release();
                self.allocs[al].owners -= 1;
                let ran: Vec<u32> = DROPS.with(|d| d.borrow()[before..].to_vec());
                let want: Vec<u32> = if self.allocs[al].owners == 0 { vec![self.allocs[al].id] } else { vec![] };
                if ran != want {
                    self.fail(format!("releasing a handle ran destructors {:?}, expected {:?}", ran, want));
                }
            }
            Op::Conv(i, to) => {
                let (h, al) = self.hs.remove(i);
                let unique = self.allocs[al].owners == 1;
                let n = match (h, to) {
                    (H::A(a), K::O) => H::O(Arc::into_raw_offset(a)),
                    (H::A(a), K::R) => H::R(Arc::into_raw(a)),
                    (H::A(a), K::U1) => H::U1(ArcUnion::from_first(a)),
                    (H::A(a), K::U2) => H::U2(ArcUnion::from_second(a)),
                    (H::A(a), K::X) => match Arc::try_unique(a) {
                        Ok(x) => {
                            if !unique {
                                self.fail("try_unique granted although the value is shared".into());
                            }
                            H::X(x)
                        }
                        Err(a) => {
                            if unique {
                                self.fail("try_unique declined a sole owner".into());
                            }
                            H::A(a)
                        }
                    },
                    (H::O(o), K::A) => H::A(Arc::from_raw_offset(o)),
                    (H::R(p), K::A) => H::A(unsafe { Arc::from_raw(p) }),
                    (H::X(x), K::A) => H::A(x.shareable()),
                    (H::F(f), K::T) => H::T(Arc::into_thin(f)),
                    (H::T(t), K::F) => H::F(Arc::from_thin(t)),
                    (H::T(t), K::Rt) => H::Rt(ThinArc::into_raw(t)),
                    (H::Rt(p), K::T) => H::T(unsafe { Thin::from_raw(p) }),
                    _ => unreachable!(),
                };
                self.hs.insert(i, (n, al));
            }
            Op::GetMutW(i) => {
                let al = self.hs[i].1;
                let unique = self.allocs[al].owners == 1;
                let got = match &mut self.hs[i].0 {
                    H::A(a) => Arc::get_mut(a).map(|p| p.v += 1).is_some(),
                    H::F(f) => Arc::get_mut(f).map(|p| p.header.header.v += 1).is_some(),
                    H::T(t) => t.with_arc_mut(|a| Arc::get_mut(a).map(|p| p.header_mut().v += 1).is_some()),
                    H::X(x) => {
                        x.v += 1;
                        true
                    }
                    _ => unreachable!(),
                };
                if got != unique {
                    self.fail(format!("mutable access granted={} with {} owners", got, self.allocs[al].owners));
                }
                if got {
                    self.allocs[al].v += 1;
                }
            }
            Op::MakeMutW(i) => {
                let al = self.hs[i].1;
                let unique = self.allocs[al].owners == 1;
                let (id, v) = match &mut self.hs[i].0 {
                    H::A(a) => {
                        let p = Arc::make_mut(a);
                        p.v += 1;
                        (p.id, p.v)
                    }
                    H::O(o) => {
                        let p = o.make_mut();
                        p.v += 1;
                        (p.id, p.v)
                    }
                    _ => unreachable!(),
                };
                if unique {
                    if id != self.allocs[al].id {
                        self.fail("make_mut copied a solely owned value".into());
                    }
                    self.allocs[al].v += 1;
                } else {
                    if id == self.allocs[al].id {
                        self.fail("make_mut wrote to a shared value in place".into());
                    }
                    self.allocs[al].owners -= 1;
                    let na = self.new_alloc(id, v);
                    self.hs[i].1 = na;
                }
            }
            Op::TryUnwrap(i) => {
                let (h, al) = self.hs.remove(i);
                let H::A(a) = h else { unreachable!() };
                let unique = self.allocs[al].owners == 1;
                match Arc::try_unwrap(a) {
                    Ok(p) => {
                        if !unique || p.id != self.allocs[al].id || p.v != self.allocs[al].v {
                            self.fail(format!("try_unwrap handed out {:?} with {} owners", p, self.allocs[al].owners));
                        }
                        self.allocs[al].owners -= 1;
                        drop(p);
                    }
                    Err(a) => {
                        if unique {
                            self.fail("try_unwrap declined a sole owner".into());
                        }
                        self.hs.insert(i, (H::A(a), al));
                    }
                }
            }
            Op::Callback(i) => {
                // the handle lent to a with_* callback is cloned, counted and compared inside it
                let al = self.hs[i].1;
                let owners = self.allocs[al].owners;
                let mut seen = 0usize;
                let h = match &self.hs[i].0 {
                    H::A(a) => H::O(a.with_raw_offset_arc(|o| {
                        seen = OffsetArc::strong_count(o);
                        let _ = o.borrow_arc().get().v;
                        o.clone()
                    })),
                    H::O(o) => H::A(o.with_arc(|a| {
                        seen = Arc::count(a);
                        a.clone()
                    })),
                    H::T(t) => H::T(t.with_arc(|a| {
                        seen = Arc::count(a);
                        Arc::into_thin(Arc::clone(a))
                    })),
                    H::U1(u) => H::A(u.as_first().unwrap().with_arc(|a| {
                        seen = Arc::count(a);
                        a.clone()
                    })),
                    H::U2(u) => H::A(u.as_second().unwrap().with_arc(|a| {
                        seen = Arc::count(a);
                        a.clone()
                    })),
                    _ => unreachable!(),
                };
                if seen != owners {
                    self.fail(format!("inside the callback the count reads {} with {} owners", seen, owners));
                }
                self.allocs[al].owners += 1;
                self.push(h, al);
            }
            Op::BorrowClone(i) => {
                let al = self.hs[i].1;
                let h = match &self.hs[i].0 {
                    H::A(a) => {
                        let b = a.borrow_arc();
                        let b2 = b;
                        let _ = b2.get().v;
                        H::A(ArcBorrow::clone_arc(&b))
                    }
                    H::O(o) => H::A(o.borrow_arc().clone_arc()),
                    _ => unreachable!(),
                };
                self.allocs[al].owners += 1;
                self.push(h, al);
            }
            Op::CloneFrom(i, j) => {
                let (ai, aj) = (self.hs[i].1, self.hs[j].1);
                let before = DROPS.with(|d| d.borrow().len());
                // take the destination out so that both can be borrowed
                let (mut dst, _) = self.hs.remove(i);
                let jj = if j > i { j - 1 } else { j };
                match (&mut dst, &self.hs[jj].0) {
                    (H::A(d), H::A(s)) => d.clone_from(s),
                    (H::O(d), H::O(s)) => d.clone_from(s),
                    (H::T(d), H::T(s)) => d.clone_from(s),
                    (H::F(d), H::F(s)) => d.clone_from(s),
                    (H::U1(d), H::U1(s)) => d.clone_from(s),
                    (H::U2(d), H::U2(s)) => d.clone_from(s),
                    _ => unreachable!(),
                }
                self.hs.insert(i, (dst, aj));
                self.allocs[aj].owners += 1;
                self.allocs[ai].owners -= 1;
                let ran: Vec<u32> = DROPS.with(|d| d.borrow()[before..].to_vec());
                let want: Vec<u32> = if self.allocs[ai].owners == 0 { vec![self.allocs[ai].id] } else { vec![] };
                if ran != want {
                    self.fail(format!("clone_from ran destructors {:?}, expected {:?}", ran, want));
                }
            }
            Op::PtrEq(i, j) => {
                let same = self.hs[i].1 == self.hs[j].1;
                let got = match (&self.hs[i].0, &self.hs[j].0) {
                    (H::A(a), H::A(b)) => Arc::ptr_eq(a, b),
                    (H::O(a), H::O(b)) => a.with_arc(|x| b.with_arc(|y| Arc::ptr_eq(x, y))),
                    (H::T(a), H::T(b)) => a.with_arc(|x| b.with_arc(|y| Arc::ptr_eq(x, y))),
                    (H::U1(a), H::U1(b)) => ArcUnion::ptr_eq(a, b),
                    _ => unreachable!(),
                };
                if got != same {
                    self.fail(format!("ptr_eq = {} for handles to {} allocation", got, if same { "the same" } else { "different" }));
                }
            }
        }
        // every handle reads the model's value and count after every step
        let mut msgs = vec![];
        for (idx, (h, al)) in self.hs.iter().enumerate() {
            let (id, v, c) = h.look();
            let m = &self.allocs[*al];
            if id != m.id || v != m.v || c != m.owners {
                msgs.push(format!("after {:?}: handle {} ({:?}) reads id {} value {} count {}; the model says id {} value {} owners {}", op, idx, h.kind(), id, v, c, m.id, m.v, m.owners));
            }
        }
        self.viol.extend(msgs);
    }
    fn finish(mut self) -> Vec<String> {
        while let Some((h, al)) = self.hs.pop() {
            h.release();
            self.allocs[al].owners -= 1;
        }
        let mut d = DROPS.with(|d| d.borrow().clone());
        d.sort();
        let created: Vec<u32> = (1..NEXT.with(|n| n.get())).collect();
        if d != created {
            self.viol.push(format!("values created {:?}, destructor log {:?}", created, d));
        }
        self.viol
    }
}

fn kname(k: K) -> &'static str {
    match k {
        K::A => "Arc",
        K::O => "OffsetArc",
        K::U1 => "UnionFirst",
        K::U2 => "UnionSecond",
        K::R => "raw",
        K::X => "UniqueArc",
        K::F => "fat",
        K::T => "ThinArc",
        K::Rt => "thin-raw",
    }
}
/// formatting machinery is very slow under the interpreter: build the text by hand
fn fmt(seq: &[Op]) -> String {
    let mut s = String::with_capacity(96);
    let d = |s: &mut String, i: usize| s.push((b'0' + i as u8) as char);
    for (n, op) in seq.iter().enumerate() {
        if n > 0 {
            s.push(' ');
        }
        match *op {
            Op::New => s.push_str("New"),
            Op::NewThin => s.push_str("NewThin"),
            Op::NewUnique => s.push_str("NewUnique"),
            Op::Clone(i) => {
                s.push_str("Clone");
                d(&mut s, i)
            }
            Op::CloneArc(i) => {
                s.push_str("CloneArc");
                d(&mut s, i)
            }
            Op::Drop(i) => {
                s.push_str("Drop");
                d(&mut s, i)
            }
            Op::Conv(i, k) => {
                s.push_str("Conv");
                d(&mut s, i);
                s.push_str("->");
                s.push_str(kname(k))
            }
            Op::GetMutW(i) => {
                s.push_str("GetMutW");
                d(&mut s, i)
            }
            Op::MakeMutW(i) => {
                s.push_str("MakeMutW");
                d(&mut s, i)
            }
            Op::TryUnwrap(i) => {
                s.push_str("TryUnwrap");
                d(&mut s, i)
            }
            Op::Callback(i) => {
                s.push_str("Callback");
                d(&mut s, i)
            }
            Op::BorrowClone(i) => {
                s.push_str("BorrowClone");
                d(&mut s, i)
            }
            Op::PtrEq(i, j) => {
                s.push_str("PtrEq");
                d(&mut s, i);
                d(&mut s, j)
            }
            Op::CloneFrom(i, j) => {
                s.push_str("CloneFrom");
                d(&mut s, i);
                d(&mut s, j)
            }
        }
    }
    s
}

struct Walk {
    depth: usize,
    shard: (usize, usize),
    runs: usize,
    ops: usize,
    viol: usize,
    leaves_seen: usize,
}
impl Walk {
    /// execute `seq` from scratch; returns the ops enabled afterwards
    fn run(&mut self, seq: &[Op], count: bool) -> Vec<Op> {
        DROPS.with(|d| d.borrow_mut().clear());
        NEXT.with(|n| n.set(1));
        let mut r = Run { hs: vec![], allocs: vec![], viol: vec![] };
        for &op in seq {
            r.step(op);
        }
        let en = r.enabled();
        let v = r.finish();
        if count {
            self.runs += 1;
            self.ops += seq.len();
            for m in v {
                self.viol += 1;
                println!("VIOL model :: {} :: {}", fmt(seq), m);
            }
        }
        en
    }
    fn dfs(&mut self, seq: &mut Vec<Op>) {
        // the shard owns the subtrees below depth 2
        let mine = if seq.len() == 2 {
            self.leaves_seen += 1;
            (self.leaves_seen - 1) % self.shard.1 == self.shard.0
        } else {
            true
        };
        if !mine {
            return;
        }
        let count = seq.len() >= 2 || self.shard.0 == 0;
        if count {
            use std::io::Write;
            let mut line = fmt(seq);
            line.insert_str(0, "BEGIN ");
            line.push('\n');
            let _ = std::io::stdout().write_all(line.as_bytes());
        }
        let en = self.run(seq, count);
        if seq.len() == self.depth {
            return;
        }
        for op in en {
            seq.push(op);
            self.dfs(seq);
            seq.pop();
        }
    }
}

fn main() {
    let args: Vec<String> = std::env::args().collect();
    let depth: usize = args.get(1).and_then(|s| s.parse().ok()).unwrap_or(3);
    let shard = (args.get(2).and_then(|s| s.parse().ok()).unwrap_or(0), args.get(3).and_then(|s| s.parse().ok()).unwrap_or(1));
    let mut w = Walk { depth, shard, runs: 0, ops: 0, viol: 0, leaves_seen: 0 };
    w.dfs(&mut vec![]);
    println!("DONE runs={} ops={} violations={} depth={}", w.runs, w.ops, w.viol, depth);
}
