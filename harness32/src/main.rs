//! m32 — the C05 overflow-boundary grid on a 32-bit target (i686), executed by the Miri
//! interpreter: every cell of constructor x element size x length around isize::MAX / size and
//! usize::MAX / size runs on the real crate compiled for a 32-bit usize. A length whose contents
//! cannot fit must end in a panic; a length that fits but is too big for this process must reach
//! the allocator with a request that covers it (the allocator refuses, the allocation-error hook
//! turns the abort into a panic so that the grid stays in one process).
#![feature(alloc_error_hook)]
use std::alloc::{GlobalAlloc, Layout, System};
use std::mem::{size_of, MaybeUninit};
use std::sync::atomic::{AtomicUsize, Ordering::SeqCst};
use triomphe::{Arc, HeaderSlice, ThinArc, UniqueArc};

/// requests above this are recorded and refused
const REFUSE_ABOVE: usize = 1 << 20;
static REFUSED_SIZE: AtomicUsize = AtomicUsize::new(0);
static REFUSED_N: AtomicUsize = AtomicUsize::new(0);
static LARGEST_GRANTED: AtomicUsize = AtomicUsize::new(0);
/// (is_alloc, address, size, align) of every allocator call while LOG_ON
static mut LOG: [(bool, usize, usize, usize); 64] = [(false, 0, 0, 0); 64];
static LOG_N: AtomicUsize = AtomicUsize::new(0);
static LOG_ON: AtomicUsize = AtomicUsize::new(0);
fn log_ev(e: (bool, usize, usize, usize)) {
    if LOG_ON.load(SeqCst) != 0 {
        let i = LOG_N.fetch_add(1, SeqCst);
        if i < 64 {
            unsafe { (*std::ptr::addr_of_mut!(LOG))[i] = e };
        }
    }
}
fn log_take() -> Vec<(bool, usize, usize, usize)> {
    LOG_ON.store(0, SeqCst);
    let n = LOG_N.swap(0, SeqCst).min(64);
    (0..n).map(|i| unsafe { (*std::ptr::addr_of!(LOG))[i] }).collect()
}
struct Rec;
unsafe impl GlobalAlloc for Rec {
    unsafe fn alloc(&self, l: Layout) -> *mut u8 {
        if l.size() > REFUSE_ABOVE {
            REFUSED_SIZE.store(l.size(), SeqCst);
            REFUSED_N.fetch_add(1, SeqCst);
            return std::ptr::null_mut();
        }
        LARGEST_GRANTED.fetch_max(l.size(), SeqCst);
        let p = System.alloc(l);
        log_ev((true, p as usize, l.size(), l.align()));
        p
    }
    unsafe fn dealloc(&self, p: *mut u8, l: Layout) {
        log_ev((false, p as usize, l.size(), l.align()));
        System.dealloc(p, l)
    }
}
#[global_allocator]
static A: Rec = Rec;

struct Lying<T> {
    claim: usize,
    real: usize,
    _p: std::marker::PhantomData<T>,
}
impl<T: Default> Iterator for Lying<T> {
    type Item = T;
    fn next(&mut self) -> Option<T> {
        if self.real == 0 {
            return None;
        }
        self.real -= 1;
        Some(T::default())
    }
    fn size_hint(&self) -> (usize, Option<usize>) {
        (self.claim, Some(self.claim))
    }
}
impl<T: Default> ExactSizeIterator for Lying<T> {
    fn len(&self) -> usize {
        self.claim
    }
}

#[derive(Clone, Copy)]
#[repr(C, align(64))]
struct E64([u8; 64]);
impl Default for E64 {
    fn default() -> E64 {
        E64([0; 64])
    }
}
type H = u64;

const CTORS: [&str; 6] = ["new_uninit_slice", "unique_new_uninit_slice", "header_uninit_slice", "iter_lying_len", "thin_iter_lying_len", "from_iter_exact_lying_len"];

/// returns the length the handle reports
fn call<T: Default + 'static>(ctor: &str, n: usize) -> usize {
    match ctor {
        "new_uninit_slice" => Arc::<[MaybeUninit<T>]>::new_uninit_slice(n).len(),
        "unique_new_uninit_slice" => UniqueArc::<[MaybeUninit<T>]>::new_uninit_slice(n).len(),
        "header_uninit_slice" => UniqueArc::<HeaderSlice<H, [MaybeUninit<T>]>>::from_header_and_uninit_slice(1, n).slice.len(),
        "iter_lying_len" => Arc::from_header_and_iter(1 as H, Lying::<T> { claim: n, real: 2, _p: Default::default() }).slice.len(),
        "thin_iter_lying_len" => ThinArc::from_header_and_iter(1 as H, Lying::<T> { claim: n, real: 2, _p: Default::default() }).slice.len(),
        "from_iter_exact_lying_len" => Lying::<T> { claim: n, real: 2, _p: Default::default() }.collect::<Arc<[T]>>().len(),
        _ => unreachable!(),
    }
}

struct Tot {
    /// (this process's shard, number of shards): cell i runs here iff i % of == shard
    shard: (usize, usize),
    seen: usize,
    cells: usize,
    panic: usize,
    refused: usize,
    returned: usize,
    viol: usize,
}

fn cell<T: Default + 'static>(t: &mut Tot, ctor: &str, n: usize) {
    t.seen += 1;
    if (t.seen - 1) % t.shard.1 != t.shard.0 {
        return;
    }
    let ts = size_of::<T>();
    let hdr = match ctor {
        "new_uninit_slice" | "unique_new_uninit_slice" | "from_iter_exact_lying_len" => 0,
        "thin_iter_lying_len" => size_of::<H>() + size_of::<usize>(),
        _ => size_of::<H>(),
    };
    // lower bound of what the allocation must hold, in 128-bit arithmetic (padding ignored)
    let mut need: u128 = size_of::<usize>() as u128 + hdr as u128 + (n as u128) * (ts as u128);
    if ctor.contains("lying") {
        // an implementation may gather the items in scratch memory first: the first big request may
        // then be for the elements alone
        need = (n as u128) * (ts as u128);
    }
    REFUSED_N.store(0, SeqCst);
    REFUSED_SIZE.store(0, SeqCst);
    LARGEST_GRANTED.store(0, SeqCst);
    println!("BEGIN ctor={} elem_size={} len={}", ctor, ts, n);
    let r = std::panic::catch_unwind(|| call::<T>(ctor, n));
    let refused = REFUSED_N.load(SeqCst);
    let rsize = REFUSED_SIZE.load(SeqCst) as u128;
    t.cells += 1;
    let case = format!("ctor={} elem_size={} len={} (needs >= {} bytes; isize::MAX = {})", ctor, ts, n, need, isize::MAX);
    let mut viol = |code: &str, msg: String| {
        t.viol += 1;
        println!("VIOL {} :: {} :: {}", code, case, msg);
    };
    match r {
        Ok(len) => {
            t.returned += 1;
            // an iterator that claimed n and really had two items: a handle with exactly those two is
            // a correct answer, any other length is not
            let lying = ctor.contains("lying");
            if lying && len <= 2 && refused == 0 {
                // true contents
            } else if need > isize::MAX as u128 || refused > 0 || lying {
                viol("returned", format!("the constructor returned a handle of length {} (largest granted request {} bytes, refused requests {})", len, LARGEST_GRANTED.load(SeqCst), refused));
            } else if (LARGEST_GRANTED.load(SeqCst) as u128) < need {
                viol("short-request", format!("returned, but the largest allocation request was {} bytes", LARGEST_GRANTED.load(SeqCst)));
            }
        }
        Err(_) => {
            if refused > 0 {
                t.refused += 1;
                if need > isize::MAX as u128 {
                    viol("impossible-request", format!("the allocator was asked for {} bytes, a size no valid layout has", rsize));
                }
                if rsize < need {
                    viol("short-request", format!("the allocator was asked for {} bytes only", rsize));
                }
            } else {
                t.panic += 1;
                if need <= REFUSE_ABOVE as u128 / 2 && !ctor.contains("lying") {
                    viol("spurious-panic", "a small, valid length panicked".to_string());
                }
            }
        }
    }
}

// ------------------------------------------------------------------ layout cells (small lengths)
/// what the compiler itself lays out for "count word, header, N elements"
#[repr(C)]
struct Model<Hd, T, const N: usize> {
    count: usize,
    data: Payload<Hd, T, N>,
}
/// the crate's payload is one nested repr(C) struct (header, then the elements)
#[repr(C)]
struct Payload<Hd, T, const N: usize> {
    h: Hd,
    s: [T; N],
}
#[repr(C)]
struct WithLen<Hd> {
    h: Hd,
    len: usize,
}
#[derive(Clone, Copy, Default)]
#[repr(C, align(16))]
struct H16(u8);

fn layout_cell<Hd: Default + 'static, T: Default + 'static, const N: usize>(t: &mut Tot, hname: &str, tname: &str) {
    for ctor in ["from_header_and_iter", "ThinArc::from_header_and_iter", "from_header_and_vec", "header_uninit_slice", "Arc<[T]> from_iter", "Arc::new([T; N])"] {
        t.seen += 1;
        if (t.seen - 1) % t.shard.1 != t.shard.0 {
            continue;
        }
        t.cells += 1;
        println!("BEGIN layout ctor={} header={} elem={} len={}", ctor, hname, tname, N);
        let case = format!("layout ctor={} header={} (size {}, align {}) elem={} (size {}, align {}) len={}", ctor, hname, size_of::<Hd>(), std::mem::align_of::<Hd>(), tname, size_of::<T>(), std::mem::align_of::<T>(), N);
        let want = match ctor {
            "ThinArc::from_header_and_iter" => Layout::new::<Model<WithLen<Hd>, T, N>>(),
            "Arc<[T]> from_iter" | "Arc::new([T; N])" => Layout::new::<Model<(), T, N>>(),
            _ => Layout::new::<Model<Hd, T, N>>(),
        };
        let items = || (0..N).map(|_| T::default());
        // build the inputs first so that only the constructor's own allocation is logged
        let v: Vec<T> = items().collect();
        LOG_N.store(0, SeqCst);
        LOG_ON.store(1, SeqCst);
        // (address of element 0 or of the value, address just past the payload)
        let built = std::panic::catch_unwind(std::panic::AssertUnwindSafe(|| match ctor {
            "from_header_and_iter" => {
                let a = Arc::from_header_and_iter(Hd::default(), v.into_iter());
                let r = a.slice.as_ptr_range();
                let out = (r.start as usize, r.end as usize);
                drop(a);
                out
            }
            "ThinArc::from_header_and_iter" => {
                let a = ThinArc::from_header_and_iter(Hd::default(), v.into_iter());
                let r = a.slice.as_ptr_range();
                let out = (r.start as usize, r.end as usize);
                drop(a);
                out
            }
            "from_header_and_vec" => {
                let a = Arc::from_header_and_vec(Hd::default(), v);
                let r = a.slice.as_ptr_range();
                let out = (r.start as usize, r.end as usize);
                drop(a);
                out
            }
            "header_uninit_slice" => {
                drop(v);
                let a = UniqueArc::<HeaderSlice<Hd, [MaybeUninit<T>]>>::from_header_and_uninit_slice(Hd::default(), N);
                let r = a.slice.as_ptr_range();
                let out = (r.start as usize, r.end as usize);
                drop(a);
                out
            }
            "Arc<[T]> from_iter" => {
                let a: Arc<[T]> = v.into_iter().collect();
                let r = a.as_ptr_range();
                let out = (r.start as usize, r.end as usize);
                drop(a);
                out
            }
            _ => {
                drop(v);
                let arr: [T; N] = std::array::from_fn(|_| T::default());
                let a = Arc::new(arr);
                let r = a.as_ptr_range();
                let out = (r.start as usize, r.end as usize);
                drop(a);
                out
            }
        }));
        let log = log_take();
        let mut viol = |code: &str, msg: String| {
            t.viol += 1;
            println!("VIOL {} :: {} :: {}", code, case, msg);
        };
        let (first, end): (usize, usize) = match built {
            Ok(x) => x,
            Err(_) => {
                viol("layout-panic", "the constructor panicked for a small honest input".to_string());
                continue;
            }
        };
        // the block that contains the payload
        let blk = log.iter().find(|e| e.0 && e.1 <= first && first <= e.1 + e.2);
        match blk {
            None => viol("layout-no-block", format!("no logged allocation contains the payload at {:#x}: {:?}", first, log)),
            Some(&(_, addr, size, align)) => {
                if size != want.size() || align != want.align() {
                    viol("layout-request", format!("requested (size {}, align {}), the compiler lays out count+header+{} elements as (size {}, align {})", size, align, N, want.size(), want.align()));
                }
                if first % std::mem::align_of::<T>() != 0 || end > addr + size {
                    viol("layout-payload", format!("payload [{:#x}, {:#x}) is misaligned for align {} or leaves the block [{:#x}, {:#x})", first, end, std::mem::align_of::<T>(), addr, addr + size));
                }
                let frees: Vec<_> = log.iter().filter(|e| !e.0 && e.1 == addr).collect();
                if frees.len() != 1 || frees[0].2 != size || frees[0].3 != align {
                    viol("layout-release", format!("block requested as (size {}, align {}) was released as {:?}", size, align, frees));
                }
            }
        }
    }
}
macro_rules! layout_n {
    ($t:ident, $H:ty, $hn:expr, $T:ty, $tn:expr) => {
        layout_cell::<$H, $T, 0>($t, $hn, $tn);
        layout_cell::<$H, $T, 1>($t, $hn, $tn);
        layout_cell::<$H, $T, 2>($t, $hn, $tn);
        layout_cell::<$H, $T, 3>($t, $hn, $tn);
        layout_cell::<$H, $T, 5>($t, $hn, $tn);
    };
}
macro_rules! layout_h {
    ($t:ident, $T:ty, $tn:expr) => {
        layout_n!($t, (), "()", $T, $tn);
        layout_n!($t, u8, "u8", $T, $tn);
        layout_n!($t, u16, "u16", $T, $tn);
        layout_n!($t, u64, "u64", $T, $tn);
        layout_n!($t, H16, "H16(align 16)", $T, $tn);
        layout_n!($t, E64, "E64(align 64)", $T, $tn);
    };
}
fn layout_grid(t: &mut Tot) {
    // (zero-sized elements are refused up front by the slice constructors: not a layout question)
    layout_h!(t, u8, "u8");
    layout_h!(t, u16, "u16");
    layout_h!(t, [u8; 3], "[u8;3]");
    layout_h!(t, u32, "u32");
    layout_h!(t, u64, "u64");
    layout_h!(t, [u64; 3], "[u64;3]");
    layout_h!(t, H16, "H16(align 16)");
    layout_h!(t, E64, "E64(align 64)");
}

fn lens(ts: usize) -> Vec<usize> {
    let mut v: Vec<usize> = vec![0, 1, 2, 3, usize::MAX, usize::MAX - 1, usize::MAX / 2, usize::MAX / 2 + 1, 1 << 30, (1 << 30) + 1, (1 << 31) + 1, 1 << 28, (1 << 28) + 1, (1 << 24) + 1];
    if ts > 0 {
        for base in [isize::MAX as usize / ts, usize::MAX / ts, (1usize << 31) / ts.next_power_of_two(), (usize::MAX / ts).saturating_add(usize::MAX / (2 * ts))] {
            for d in [-40i64, -17, -9, -3, -2, -1, 0, 1, 2, 3] {
                v.push((base as i128 + d as i128).clamp(0, usize::MAX as i128) as usize);
            }
        }
    }
    v.sort();
    v.dedup();
    v
}

fn main() {
    assert_eq!(size_of::<usize>(), 4, "this grid is meant for a 32-bit target");
    std::panic::set_hook(Box::new(|_| {}));
    std::alloc::set_alloc_error_hook(|l| panic!("allocation of {} bytes refused", l.size()));
    let args: Vec<String> = std::env::args().collect();
    let shard = (args.get(1).and_then(|s| s.parse().ok()).unwrap_or(0), args.get(2).and_then(|s| s.parse().ok()).unwrap_or(1));
    let mut t = Tot { shard, seen: 0, cells: 0, panic: 0, refused: 0, returned: 0, viol: 0 };
    for ctor in CTORS {
        for n in lens(1) {
            cell::<u8>(&mut t, ctor, n);
        }
        for n in lens(2) {
            cell::<u16>(&mut t, ctor, n);
        }
        for n in lens(3) {
            cell::<[u8; 3]>(&mut t, ctor, n);
        }
        for n in lens(4) {
            cell::<u32>(&mut t, ctor, n);
        }
        for n in lens(8) {
            cell::<u64>(&mut t, ctor, n);
        }
        for n in lens(24) {
            cell::<[u64; 3]>(&mut t, ctor, n);
        }
        for n in lens(64) {
            cell::<E64>(&mut t, ctor, n);
        }
    }
    layout_grid(&mut t);
    println!("DONE cells={} panic={} refused={} returned={} violations={}", t.cells, t.panic, t.refused, t.returned, t.viol);
}
