//! Bridge from the crate's reference-count word to loom (DESIGN §2.5).
//!
//! Every atomic operation the crate performs on a count arrives here through the
//! cfg(triomphe_verif) hook table. The bridge keeps, per count word, a loom atomic (the
//! scheduling point and memory-model authority) and a loom `UnsafeCell<()>` *shadow* that
//! stands for "this thread touches the count word": `with` before every atomic operation,
//! `with_mut` when the block is released (and when it is registered). loom's vector-clock
//! race detector then enforces that every access to the count happens-before the release
//! of its memory.
use std::cell::{Cell, RefCell};
use std::collections::HashMap;
use std::rc::Rc;
use std::sync::atomic::{AtomicUsize as RealAtomic, Ordering};
use triomphe::verif_hook::{set_hooks, Hooks, Rmw};
use vrt::arena::{self, suspend};

pub struct Counter {
    pub atom: loom::sync::atomic::AtomicUsize,
    pub shadow: loom::cell::UnsafeCell<()>,
    pub released: Cell<bool>,
    pub addr: usize,
}

#[derive(Clone, Debug, PartialEq, Eq, Hash)]
pub struct SigEntry {
    pub tid: u32,
    pub op: &'static str,
    pub val: usize,
}

thread_local! {
    static MAP: RefCell<HashMap<usize, Rc<Counter>>> = RefCell::new(HashMap::new());
    static THREADS: RefCell<Vec<(loom::thread::ThreadId, u32)>> = const { RefCell::new(Vec::new()) };
    pub static SIG: RefCell<Vec<SigEntry>> = const { RefCell::new(Vec::new()) };
    static FAIL: RefCell<Option<String>> = const { RefCell::new(None) };
    pub static RELEASES: RefCell<Vec<(u32, usize)>> = const { RefCell::new(Vec::new()) };
}

/// Oracle categories: each property's check owns some of them (a check never reports
/// another property's violation).
pub const ORDER: u32 = 1; // destruction / release ordered after every access; nothing touched after release
pub const CONSERVE: u32 = 2; // destroyed once, released once, moved out to at most one thread, no leak
pub const WRITE: u32 = 4; // granted writes do not race with and are not seen by other owners
pub const COWSEM: u32 = 8; // make_mut semantics seen by the writer itself

pub static OWNED: std::sync::atomic::AtomicU32 = std::sync::atomic::AtomicU32::new(u32::MAX);
pub static OUT_OF_SCOPE: RealAtomic = RealAtomic::new(0);

/// Record the first owned failure of this execution (raised at the end of the execution).
pub fn fail(cat: u32, msg: String) {
    if cat & OWNED.load(Ordering::Relaxed) == 0 {
        OUT_OF_SCOPE.fetch_add(1, Ordering::Relaxed);
        return;
    }
    suspend(|| {
        FAIL.with(|f| {
            let mut f = f.borrow_mut();
            if f.is_none() {
                *f = Some(msg);
            }
        })
    });
}
pub fn failure() -> Option<String> {
    suspend(|| FAIL.with(|f| f.borrow().clone()))
}

/// Run a loom operation that may panic with a causality violation; convert to `fail`.
pub fn guarded<R>(cat: u32, what: &str, f: impl FnOnce() -> R) -> Option<R> {
    match std::panic::catch_unwind(std::panic::AssertUnwindSafe(f)) {
        Ok(r) => Some(r),
        Err(e) => {
            let m = if let Some(s) = e.downcast_ref::<&str>() {
                s.to_string()
            } else if let Some(s) = e.downcast_ref::<String>() {
                s.clone()
            } else {
                "<panic>".into()
            };
            fail(cat, format!("{}: {}", what, m.lines().next().unwrap_or("")));
            None
        }
    }
}

pub fn reset_execution() {
    suspend(|| {
        MAP.with(|m| m.borrow_mut().clear());
        THREADS.with(|m| m.borrow_mut().clear());
        SIG.with(|m| m.borrow_mut().clear());
        RELEASES.with(|m| m.borrow_mut().clear());
        FAIL.with(|m| *m.borrow_mut() = None);
    });
}

pub fn register_thread(t: u32) {
    suspend(|| {
        let id = loom::thread::current().id();
        THREADS.with(|m| m.borrow_mut().push((id, t)));
    });
    arena::set_tid(t);
}

/// Which logical thread is running now (asks loom).
pub fn sync_tid() -> u32 {
    let t = suspend(|| {
        let id = loom::thread::current().id();
        THREADS.with(|m| m.borrow().iter().find(|x| x.0 == id).map(|x| x.1).unwrap_or(99))
    });
    arena::set_tid(t);
    t
}

fn counter(a: &RealAtomic) -> Rc<Counter> {
    let addr = a as *const _ as usize;
    MAP.with(|m| {
        if let Some(c) = m.borrow().get(&addr) {
            return c.clone();
        }
        let c = Rc::new(Counter {
            atom: loom::sync::atomic::AtomicUsize::new(a.load(Ordering::Relaxed)),
            shadow: loom::cell::UnsafeCell::new(()),
            released: Cell::new(false),
            addr,
        });
        m.borrow_mut().insert(addr, c.clone());
        c
    })
}

fn pre(c: &Counter, what: &'static str) {
    if c.released.get() {
        fail(ORDER, format!("{} on the reference count at {:#x} after its memory was released", what, c.addr));
    } else if arena::is_freed(c.addr) {
        fail(ORDER, format!("{} on a reference count inside freed memory {:#x}", what, c.addr));
    }
    // this thread touches the count word (sequenced before the operation itself)
    guarded(ORDER, "count word accessed concurrently with the release of its memory", || c.shadow.with(|_| ()));
}
fn post(op: &'static str, val: usize) {
    let tid = sync_tid();
    SIG.with(|s| s.borrow_mut().push(SigEntry { tid, op, val }));
}

fn h_load(a: &RealAtomic, o: Ordering) -> usize {
    suspend(|| {
        let c = counter(a);
        pre(&c, "load");
        let r = c.atom.load(o);
        post("load", r);
        r
    })
}
fn h_store(a: &RealAtomic, v: usize, o: Ordering) {
    suspend(|| {
        let c = counter(a);
        pre(&c, "store");
        c.atom.store(v, o);
        a.store(v, Ordering::Relaxed);
        post("store", v);
    })
}
fn h_rmw(k: Rmw, a: &RealAtomic, v: usize, o: Ordering) -> usize {
    suspend(|| {
        let c = counter(a);
        pre(&c, "read-modify-write");
        let r = match k {
            Rmw::Swap => c.atom.swap(v, o),
            Rmw::Add => c.atom.fetch_add(v, o),
            Rmw::Sub => c.atom.fetch_sub(v, o),
            Rmw::And => c.atom.fetch_and(v, o),
            Rmw::Or => c.atom.fetch_or(v, o),
            Rmw::Xor => c.atom.fetch_xor(v, o),
            Rmw::Max => c.atom.fetch_max(v, o),
            Rmw::Min => c.atom.fetch_min(v, o),
        };
        vrt::rmwlog::do_rmw(k, a, v, Ordering::Relaxed);
        post(
            match k {
                Rmw::Add => "add",
                Rmw::Sub => "sub",
                _ => "rmw",
            },
            r,
        );
        r
    })
}
fn h_cas(a: &RealAtomic, cur: usize, new: usize, s: Ordering, f: Ordering, weak: bool) -> Result<usize, usize> {
    suspend(|| {
        let c = counter(a);
        pre(&c, "compare-exchange");
        let r = if weak { c.atom.compare_exchange_weak(cur, new, s, f) } else { c.atom.compare_exchange(cur, new, s, f) };
        if r.is_ok() {
            a.store(new, Ordering::Relaxed);
        }
        post("cas", match r {
            Ok(v) | Err(v) => v,
        });
        r
    })
}
fn h_fence(o: Ordering) {
    suspend(|| {
        loom::sync::atomic::fence(o);
        post("fence", 0);
    })
}

static TABLE: Hooks = Hooks { load: h_load, store: h_store, rmw: h_rmw, cas: h_cas, fence: h_fence };

fn on_dealloc(addr: usize, size: usize) {
    let tid = arena::tid();
    let hits: Vec<Rc<Counter>> = MAP.with(|m| m.borrow().values().filter(|c| c.addr >= addr && c.addr < addr + size.max(1)).cloned().collect());
    for c in hits {
        if c.released.get() {
            fail(CONSERVE, format!("memory of the count at {:#x} released twice", c.addr));
        }
        c.released.set(true);
        // the release of the memory is a write to the count word as far as races go
        guarded(ORDER, "memory released while another thread's access to the count is not ordered before it", || c.shadow.with_mut(|_| ()));
    }
    RELEASES.with(|r| r.borrow_mut().push((tid, addr)));
}

pub fn install() {
    set_hooks(Some(&TABLE));
    arena::set_on_dealloc(Some(on_dealloc));
}

/// Register a freshly created block: first touch creates the loom twin, and the
/// registration counts as a write to the count word.
pub fn register_count(count_reader: impl FnOnce() -> usize) {
    let _ = count_reader(); // a hooked load: creates the loom atomic at first touch
    // nothing else: creation happens-before every hand-off (thread spawn)
}
