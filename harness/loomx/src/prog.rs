//! Thread programs as data, their interpreter, and the per-execution oracle.
use crate::bridge::{self, fail, guarded, CONSERVE, COWSEM, ORDER, WRITE};
use std::cell::RefCell;
use triomphe::{Arc, ArcUnion, ArcUnionBorrow, HeaderSlice, HeaderWithLength, OffsetArc, ThinArc, UniqueArc};
use vrt::arena::{self, cap, suspend};

pub const MAGIC: u64 = 0x4c4f_4f4d_5041_5921;

thread_local! {
    static NEXT_ID: std::cell::Cell<u32> = const { std::cell::Cell::new(1) };
    /// (tid, payload id) for every destructor run
    pub static DROPS: RefCell<Vec<(u32, u32)>> = const { RefCell::new(Vec::new()) };
    /// (tid, payload id) for values handed out by an unwrap
    pub static RECEIVED: RefCell<Vec<(u32, u32)>> = const { RefCell::new(Vec::new()) };
    /// free-form outcome facts of this execution, e.g. "t1:get_mut=Some"
    pub static FACTS: RefCell<Vec<String>> = const { RefCell::new(Vec::new()) };
}
pub fn reset_execution() {
    NEXT_ID.with(|c| c.set(1));
    suspend(|| {
        DROPS.with(|d| d.borrow_mut().clear());
        RECEIVED.with(|d| d.borrow_mut().clear());
        FACTS.with(|d| d.borrow_mut().clear());
    });
}
fn fact(s: String) {
    suspend(|| FACTS.with(|f| f.borrow_mut().push(s)));
}

/// Payload whose data lives in a loom cell, so that loom's race detector sees every
/// access: reads use `with`, writes and the destructor use `with_mut`.
pub struct LP {
    magic: u64,
    pub id: u32,
    cell: loom::cell::UnsafeCell<u32>,
}
unsafe impl Send for LP {}
unsafe impl Sync for LP {}
impl LP {
    pub fn new(v: u32) -> LP {
        let id = NEXT_ID.with(|c| {
            let v = c.get();
            c.set(v + 1);
            v
        });
        LP { magic: MAGIC, id, cell: suspend(|| loom::cell::UnsafeCell::new(v)) }
    }
    /// (intact, value)
    pub fn read(&self) -> (bool, u32) {
        let magic = unsafe { std::ptr::read_volatile(&self.magic) };
        if magic != MAGIC {
            fail(ORDER, format!("thread {} read a payload that is not intact (magic {:#x}{})", arena::tid(), magic, if arena::is_freed(self as *const _ as usize) { ", memory already released" } else { "" }));
            return (false, 0);
        }
        let v = suspend(|| guarded(ORDER | WRITE, "payload read concurrent with a write or with its destruction", || self.cell.with(|p| unsafe { *p })));
        (true, v.unwrap_or(u32::MAX))
    }
    /// toggles the value; returns the value written
    pub fn flip(&mut self) -> u32 {
        let magic = unsafe { std::ptr::read_volatile(&self.magic) };
        if magic != MAGIC {
            fail(ORDER, format!("thread {} wrote to a payload that is not intact", arena::tid()));
            return u32::MAX;
        }
        suspend(|| {
            guarded(WRITE, "payload write concurrent with another thread's access", || {
                self.cell.with_mut(|p| unsafe {
                    *p ^= 1;
                    *p
                })
            })
        })
        .unwrap_or(u32::MAX)
    }
}
impl Drop for LP {
    fn drop(&mut self) {
        let magic = unsafe { std::ptr::read_volatile(&self.magic) };
        let tid = bridge::sync_tid();
        if magic != MAGIC {
            fail(CONSERVE | ORDER, format!("destructor ran on a payload that is not intact (magic {:#x}): destroyed twice or after release", magic));
        } else {
            suspend(|| guarded(ORDER, "destruction of the value not ordered after another thread's access to it", || self.cell.with_mut(|_| ())));
        }
        let id = self.id;
        suspend(|| DROPS.with(|d| d.borrow_mut().push((tid, id))));
        unsafe { std::ptr::write_volatile(&mut self.magic, 0xDEAD_DEAD_DEAD_DEAD) };
    }
}
impl Clone for LP {
    fn clone(&self) -> LP {
        let (_, v) = self.read();
        LP::new(v)
    }
}
#[cfg(feature = "cfg_default")]
impl<'de> serde::Deserialize<'de> for LP {
    fn deserialize<D: serde::Deserializer<'de>>(d: D) -> Result<LP, D::Error> {
        <u32 as serde::Deserialize>::deserialize(d).map(LP::new)
    }
}
/// Payload WITHOUT drop glue (no destructor anywhere): a crate may not skip any ordering for such
/// values either. Its destruction is not observable; the release of its memory is.
pub struct LN {
    magic: u64,
    pub id: u32,
    cell: loom::cell::UnsafeCell<u32>,
}
unsafe impl Send for LN {}
unsafe impl Sync for LN {}
impl LN {
    pub fn new(v: u32) -> LN {
        let id = NEXT_ID.with(|c| {
            let v = c.get();
            c.set(v + 1);
            v
        });
        LN { magic: MAGIC, id, cell: suspend(|| loom::cell::UnsafeCell::new(v)) }
    }
    pub fn read(&self) -> (bool, u32) {
        let magic = unsafe { std::ptr::read_volatile(&self.magic) };
        if magic != MAGIC || arena::is_freed(self as *const _ as usize) {
            fail(ORDER, format!("thread {} read a plain payload whose memory has been released (magic {:#x})", arena::tid(), magic));
            return (false, 0);
        }
        let v = suspend(|| guarded(ORDER | WRITE, "plain payload read concurrent with a write", || self.cell.with(|p| unsafe { *p })));
        (true, v.unwrap_or(u32::MAX))
    }
}
#[allow(dead_code)]
pub struct LQ(u64, u64, u64);

pub type Fat = Arc<HeaderSlice<HeaderWithLength<LP>, [u32]>>;
pub type Thin = ThinArc<LP, u32>;

#[derive(Clone, Copy, Debug, PartialEq, Eq, Hash, PartialOrd, Ord)]
pub enum Kind {
    /// `Arc<[MaybeUninit<LP>]>` (one initialised slot): the deprecated as_mut_slice gate
    MS,
    /// Arc / ThinArc of a payload without drop glue
    N,
    TN,
    /// no handle of its own: a reference to the main thread's Arc (the count stays 1 until it clones)
    B,
    A,
    O,
    U1,
    U2,
    T,
    F,
}
pub enum LH {
    MS(Arc<[std::mem::MaybeUninit<LP>]>),
    N(Arc<LN>),
    TN(ThinArc<LN, u32>),
    B(*const Arc<LP>),
    A(Arc<LP>),
    O(OffsetArc<LP>),
    U1(ArcUnion<LP, LQ>),
    U2(ArcUnion<LQ, LP>),
    T(Thin),
    F(Fat),
}
// handles move to the thread that runs the program
unsafe impl Send for LH {}

impl LH {
    pub fn kind(&self) -> Kind {
        match self {
            LH::MS(_) => Kind::MS,
            LH::N(_) => Kind::N,
            LH::TN(_) => Kind::TN,
            LH::B(_) => Kind::B,
            LH::A(_) => Kind::A,
            LH::O(_) => Kind::O,
            LH::U1(_) => Kind::U1,
            LH::U2(_) => Kind::U2,
            LH::T(_) => Kind::T,
            LH::F(_) => Kind::F,
        }
    }
    fn read(&self) -> (bool, u32) {
        match self {
            LH::MS(x) => unsafe { x[0].assume_init_ref() }.read(),
            LH::N(x) => x.read(),
            LH::TN(x) => x.header.header.read(),
            LH::B(p) => unsafe { (**p).read() },
            LH::A(x) => x.read(),
            LH::O(x) => x.read(),
            LH::U1(x) => match x.borrow() {
                ArcUnionBorrow::First(b) => b.read(),
                _ => {
                    fail(ORDER, "ArcUnion reports the wrong variant".into());
                    (false, 0)
                }
            },
            LH::U2(x) => match x.borrow() {
                ArcUnionBorrow::Second(b) => b.read(),
                _ => {
                    fail(ORDER, "ArcUnion reports the wrong variant".into());
                    (false, 0)
                }
            },
            LH::T(x) => {
                let r = x.header.header.read();
                if x.slice.len() != 2 || x.slice[0] != 7 || x.slice[1] != 9 {
                    fail(ORDER, "thin slice contents damaged".into());
                }
                r
            }
            LH::F(x) => {
                let r = x.header.header.read();
                if x.slice.len() != 2 || x.slice[0] != 7 || x.slice[1] != 9 {
                    fail(ORDER, "fat slice contents damaged".into());
                }
                r
            }
        }
    }
    pub fn clone_same(&self) -> LH {
        match self {
            LH::MS(x) => LH::MS(x.clone()),
            LH::N(x) => LH::N(x.clone()),
            LH::TN(x) => LH::TN(x.clone()),
            LH::B(p) => LH::A(unsafe { (**p).clone() }),
            LH::A(x) => LH::A(x.clone()),
            LH::O(x) => LH::O(x.clone()),
            LH::U1(x) => LH::U1(x.clone()),
            LH::U2(x) => LH::U2(x.clone()),
            LH::T(x) => LH::T(x.clone()),
            LH::F(x) => LH::F(x.clone()),
        }
    }
    /// clone through a borrow path, yielding a plain (fat) Arc
    fn clone_arc(&self) -> LH {
        match self {
            LH::MS(x) => LH::MS(x.clone()),
            LH::N(x) => LH::N(x.borrow_arc().clone_arc()),
            LH::TN(x) => LH::TN(Arc::into_thin(x.with_arc(|a| a.clone()))),
            LH::B(p) => LH::A(unsafe { (**p).borrow_arc().clone_arc() }),
            LH::A(x) => LH::A(x.borrow_arc().clone_arc()),
            LH::O(x) => LH::A(x.clone_arc()),
            LH::U1(x) => LH::A(x.as_first().expect("variant").clone_arc()),
            LH::U2(x) => LH::A(x.as_second().expect("variant").clone_arc()),
            LH::T(x) => LH::F(x.with_arc(|a| a.clone())),
            LH::F(x) => LH::T(Arc::into_thin(x.clone())),
        }
    }
    /// count-neutral conversion to the partner representation
    fn convert(self) -> LH {
        match self {
            LH::MS(x) => LH::MS(x),
            LH::N(x) => LH::N(Arc::from_raw_offset(Arc::into_raw_offset(x))),
            LH::TN(x) => LH::TN(Arc::into_thin(Arc::from_thin(x))),
            LH::B(p) => LH::B(p),
            LH::A(x) => LH::O(Arc::into_raw_offset(x)),
            LH::O(x) => LH::A(Arc::from_raw_offset(x)),
            LH::U1(x) => LH::U1(x),
            LH::U2(x) => LH::U2(x),
            LH::T(x) => LH::F(Arc::from_thin(x)),
            LH::F(x) => LH::T(Arc::into_thin(x)),
        }
    }
}

#[derive(Clone, Copy, Debug, PartialEq, Eq, Hash, PartialOrd, Ord)]
pub enum TOp {
    Read,
    Clone,
    CloneArc,
    Convert,
    Drop,      // drop the newest handle
    DropFirst, // drop the oldest handle
    GetMutW,
    GetUniqueW,
    TryUniqueW,
    IsUniqueGetMutW,
    WithArcMutW,
    DepWriteW,
    MakeMutW,
    MakeUniqueW,
    TryUnwrap,
    TryUniqueInner,
    UnwrapOrClone,
    /// serde: `Deserialize::deserialize_in_place` into handle 0 (value 1), then the handle must be a sole owner
    DeserInPlaceW,
    /// the same with a deserializer that fails: handle 0 must be left as it was
    DeserInPlaceErr,
}

pub fn op_valid(op: TOp, hs: &[Kind]) -> bool {
    let Some(&k0) = hs.first() else { return false };
    use TOp::*;
    match op {
        Read | Clone | CloneArc | Drop | DropFirst => true,
        Convert => !matches!(k0, Kind::U1 | Kind::U2 | Kind::B),
        GetMutW | GetUniqueW | TryUniqueW | IsUniqueGetMutW | TryUniqueInner => matches!(k0, Kind::A | Kind::F),
        WithArcMutW => k0 == Kind::T,
        DepWriteW => k0 == Kind::MS,
        MakeMutW => matches!(k0, Kind::A | Kind::O),
        MakeUniqueW | TryUnwrap | UnwrapOrClone => k0 == Kind::A,
        DeserInPlaceW | DeserInPlaceErr => k0 == Kind::A && cfg!(feature = "cfg_default"),
    }
}
/// kinds after the op (static simulation used by the program generator)
pub fn op_effect(op: TOp, hs: &mut Vec<Kind>) {
    use TOp::*;
    match op {
        Clone => hs.push(if hs[0] == Kind::B { Kind::A } else { hs[0] }),
        CloneArc => hs.push(match hs[0] {
            Kind::T => Kind::F,
            Kind::F => Kind::T,
            _ => Kind::A,
        }),
        Convert => {
            hs[0] = match hs[0] {
                Kind::A => Kind::O,
                Kind::O => Kind::A,
                Kind::T => Kind::F,
                Kind::F => Kind::T,
                k => k,
            }
        }
        Drop => {
            hs.pop();
        }
        DropFirst | TryUnwrap | TryUniqueInner | UnwrapOrClone => {
            // the unwrap ops consume handle 0 (it may come back on Err; the generator only
            // needs an upper bound of what is certainly present, so treat it as gone)
            hs.remove(0);
        }
        _ => {}
    }
}

#[derive(Clone, Debug, PartialEq, Eq, Hash, PartialOrd, Ord)]
pub struct Program {
    pub init: Kind,
    pub ops: Vec<TOp>,
}
impl Program {
    pub fn text(&self) -> String {
        format!("{:?}:{}", self.init, self.ops.iter().map(|o| format!("{:?}", o)).collect::<Vec<_>>().join(","))
    }
}

/// What the run is allowed to observe.
#[derive(Clone, Copy)]
pub struct Rules {
    /// readers other than the writer must only ever see value 0
    pub readers_see_only_v0: bool,
}

/// Interpret one thread's program. `me` is the logical thread id.
pub fn run_program(me: u32, p: &Program, first: LH, is_writer: bool, rules: Rules) {
    bridge::register_thread(me);
    let mut hs: Vec<LH> = suspend(|| Vec::with_capacity(8));
    hs.push(first);
    for op in &p.ops {
        if bridge::failure().is_some() {
            break;
        }
        if hs.is_empty() {
            break;
        }
        bridge::sync_tid();
        use TOp::*;
        match *op {
            Read => {
                let (ok, v) = cap(|| hs[0].read());
                if ok && rules.readers_see_only_v0 && !is_writer && v != 0 {
                    fail(WRITE, format!("thread {} read the written value {} through its own handle: a write became visible to another owner", me, v));
                }
                if ok && v > 1 {
                    fail(ORDER, format!("thread {} read value {}", me, v));
                }
            }
            Clone => {
                let n = cap(|| hs[0].clone_same());
                hs.push(n);
            }
            CloneArc => {
                let n = cap(|| hs[0].clone_arc());
                hs.push(n);
            }
            Convert => {
                let h = hs.remove(0);
                let n = cap(|| h.convert());
                hs.insert(0, n);
            }
            Drop => {
                let h = hs.pop().unwrap();
                cap(|| drop(h));
            }
            DropFirst => {
                let h = hs.remove(0);
                cap(|| drop(h));
            }
            GetMutW => {
                let g = cap(|| match &mut hs[0] {
                    LH::A(x) => Arc::get_mut(x).map(|p| p.flip()).is_some(),
                    LH::F(x) => Arc::get_mut(x).map(|p| p.header.header.flip()).is_some(),
                    _ => unreachable!(),
                });
                fact(format!("t{}:get_mut={}", me, g));
            }
            GetUniqueW => {
                let g = cap(|| match &mut hs[0] {
                    LH::A(x) => Arc::get_unique(x).map(|p| p.flip()).is_some(),
                    LH::F(x) => Arc::get_unique(x).map(|p| p.header.header.flip()).is_some(),
                    _ => unreachable!(),
                });
                fact(format!("t{}:get_unique={}", me, g));
            }
            IsUniqueGetMutW => {
                let g = cap(|| match &mut hs[0] {
                    LH::A(x) => {
                        if x.is_unique() {
                            match Arc::get_mut(x) {
                                Some(p) => {
                                    p.flip();
                                    1
                                }
                                None => 2,
                            }
                        } else {
                            0
                        }
                    }
                    LH::F(x) => {
                        if x.is_unique() {
                            match Arc::get_mut(x) {
                                Some(p) => {
                                    p.header.header.flip();
                                    1
                                }
                                None => 2,
                            }
                        } else {
                            0
                        }
                    }
                    _ => unreachable!(),
                });
                if g == 2 {
                    fail(WRITE, format!("thread {}: is_unique() returned true, then get_mut() declined although no handle was created in between", me));
                }
                fact(format!("t{}:is_unique_get_mut={}", me, g));
            }
            TryUniqueW => {
                let h = hs.remove(0);
                let (n, g) = cap(|| match h {
                    LH::A(x) => match Arc::try_unique(x) {
                        Ok(mut u) => {
                            let _ = u.flip();
                            (LH::A(u.shareable()), true)
                        }
                        Err(a) => (LH::A(a), false),
                    },
                    LH::F(x) => match Arc::try_unique(x) {
                        Ok(mut u) => {
                            u.header.header.flip();
                            (LH::F(u.shareable()), true)
                        }
                        Err(a) => (LH::F(a), false),
                    },
                    _ => unreachable!(),
                });
                hs.insert(0, n);
                fact(format!("t{}:try_unique={}", me, g));
            }
            DepWriteW => {
                #[allow(deprecated)]
                let g = cap(|| match &mut hs[0] {
                    LH::MS(x) => match std::panic::catch_unwind(std::panic::AssertUnwindSafe(|| x.as_mut_slice().as_mut_ptr())) {
                        Ok(p) => {
                            unsafe { (*p).assume_init_mut() }.flip();
                            true
                        }
                        Err(_) => false,
                    },
                    _ => unreachable!(),
                });
                fact(format!("t{}:dep_write={}", me, g));
            }
            WithArcMutW => {
                let g = cap(|| match &mut hs[0] {
                    LH::T(x) => x.with_arc_mut(|a| Arc::get_mut(a).map(|hs| hs.header_mut().flip()).is_some()),
                    _ => unreachable!(),
                });
                fact(format!("t{}:with_arc_mut_get_mut={}", me, g));
            }
            MakeMutW | MakeUniqueW => {
                let before = match &hs[0] {
                    LH::A(x) => x.heap_ptr() as usize,
                    LH::O(x) => x.with_arc(|a| a.heap_ptr() as usize),
                    _ => 0,
                };
                let written = cap(|| match (&mut hs[0], *op) {
                    (LH::A(x), MakeMutW) => Arc::make_mut(x).flip(),
                    (LH::A(x), MakeUniqueW) => Arc::make_unique(x).flip(),
                    (LH::O(x), MakeMutW) => x.make_mut().flip(),
                    _ => unreachable!(),
                });
                let after = match &hs[0] {
                    LH::A(x) => x.heap_ptr() as usize,
                    LH::O(x) => x.with_arc(|a| a.heap_ptr() as usize),
                    _ => 0,
                };
                let (ok, v) = cap(|| hs[0].read());
                if ok && v != written {
                    fail(COWSEM, format!("thread {}: after make_mut + write of {} the writer reads {} through its own handle", me, written, v));
                }
                fact(format!("t{}:make_mut={}", me, if before == after { "in_place" } else { "copied" }));
            }
            #[cfg(not(feature = "cfg_default"))]
            DeserInPlaceW | DeserInPlaceErr => unreachable!(),
            #[cfg(feature = "cfg_default")]
            DeserInPlaceW | DeserInPlaceErr => {
                use serde::de::value::{BoolDeserializer, Error, U32Deserializer};
                let LH::A(x) = &mut hs[0] else { unreachable!() };
                let before = x.heap_ptr() as usize;
                let ok = *op == DeserInPlaceW;
                let (_, v_before) = cap(|| x.read());
                let r = cap(|| {
                    if ok {
                        <Arc<LP> as serde::Deserialize>::deserialize_in_place(U32Deserializer::<Error>::new(1), x).is_ok()
                    } else {
                        <Arc<LP> as serde::Deserialize>::deserialize_in_place(BoolDeserializer::<Error>::new(true), x).is_ok()
                    }
                });
                let after = x.heap_ptr() as usize;
                if r != ok {
                    fail(COWSEM, format!("thread {}: deserialize_in_place returned is_ok()={} where the value's own deserializer gives {}", me, r, ok));
                }
                if ok {
                    // sole owner of the new value, whatever the other threads are doing with the old one
                    let c = cap(|| Arc::count(x));
                    if c != 1 {
                        fail(CONSERVE, format!("thread {}: handle produced by deserialize_in_place has count {}: not a sole owner", me, c));
                    }
                    let (rd, v) = cap(|| x.read());
                    if rd && v != 1 {
                        fail(COWSEM, format!("thread {}: deserialized 1, the handle reads {}", me, v));
                    }
                    fact(format!("t{}:deser={}", me, if before == after { "in_place" } else { "fresh" }));
                } else {
                    if before != after {
                        fail(COWSEM, format!("thread {}: a failed deserialize_in_place replaced the handle", me));
                    }
                    let (rd, v) = cap(|| x.read());
                    if rd && v != v_before {
                        fail(COWSEM, format!("thread {}: a failed deserialize_in_place changed the value from {} to {}", me, v_before, v));
                    }
                    fact(format!("t{}:deser=err", me));
                }
            }
            TryUnwrap | TryUniqueInner | UnwrapOrClone => {
                let h = hs.remove(0);
                let LH::A(x) = h else { unreachable!() };
                enum R {
                    Val(LP),
                    Back(Arc<LP>),
                }
                let r = cap(|| match *op {
                    TryUnwrap => match Arc::try_unwrap(x) {
                        Ok(v) => R::Val(v),
                        Err(a) => R::Back(a),
                    },
                    TryUniqueInner => match Arc::try_unique(x) {
                        Ok(u) => R::Val(UniqueArc::into_inner(u)),
                        Err(a) => R::Back(a),
                    },
                    _ => R::Val(Arc::unwrap_or_clone(x)),
                });
                match r {
                    R::Val(mut v) => {
                        let (ok, _) = v.read();
                        // whoever receives the value owns it exclusively: writing to it must not race
                        let _ = v.flip();
                        let id = v.id;
                        if ok {
                            suspend(|| RECEIVED.with(|r| r.borrow_mut().push((me, id))));
                        }
                        fact(format!("t{}:{:?}=value#{}", me, op, id));
                        cap(|| drop(v));
                    }
                    R::Back(a) => {
                        fact(format!("t{}:{:?}=declined", me, op));
                        hs.insert(0, LH::A(a));
                    }
                }
            }
        }
    }
    // the thread ends owning nothing
    while let Some(h) = hs.pop() {
        bridge::sync_tid();
        cap(|| drop(h));
    }
    suspend(|| drop(hs));
}

/// Build the shared value and one handle per thread (plus the main thread's own).
/// Returns (main handle, thread handles, original payload id, block address).
pub fn setup(kinds: &[Kind]) -> (LH, Vec<LH>, u32, usize) {
    if kinds.iter().any(|k| matches!(k, Kind::N)) {
        let base = cap(|| Arc::new(LN::new(0)));
        let (id, block) = (base.id, base.heap_ptr() as usize);
        let _ = Arc::count(&base);
        let hs = kinds.iter().map(|_| cap(|| LH::N(base.clone()))).collect();
        return (LH::N(base), hs, id, block);
    }
    if kinds.iter().any(|k| matches!(k, Kind::MS)) {
        let mut u = cap(|| triomphe::UniqueArc::<[std::mem::MaybeUninit<LP>]>::new_uninit_slice(1));
        u[0].write(LP::new(0));
        let base = u.shareable();
        let (id, block) = (unsafe { base[0].assume_init_ref() }.id, base.heap_ptr() as usize);
        let _ = Arc::count(&base);
        let hs = kinds.iter().map(|_| cap(|| LH::MS(base.clone()))).collect();
        return (LH::MS(base), hs, id, block);
    }
    if kinds.iter().any(|k| matches!(k, Kind::TN)) {
        let base: ThinArc<LN, u32> = cap(|| ThinArc::from_header_and_iter(LN::new(0), [7u32, 9].into_iter()));
        let (id, block) = (base.header.header.id, base.heap_ptr() as usize);
        let _ = ThinArc::strong_count(&base);
        let hs = kinds.iter().map(|_| cap(|| LH::TN(base.clone()))).collect();
        return (LH::TN(base), hs, id, block);
    }
    let thin = kinds.iter().any(|k| matches!(k, Kind::T | Kind::F));
    if thin {
        let base: Fat = cap(|| Arc::from_header_and_iter(HeaderWithLength::new(LP::new(0), 2), [7u32, 9].into_iter()));
        let id = base.header.header.id;
        let block = base.heap_ptr() as usize;
        let _ = Arc::count(&base); // first touch: creates the loom twin of the count
        let hs = kinds
            .iter()
            .map(|k| {
                cap(|| match k {
                    Kind::T => LH::T(Arc::into_thin(base.clone())),
                    _ => LH::F(base.clone()),
                })
            })
            .collect();
        (LH::F(base), hs, id, block)
    } else {
        let base = cap(|| Arc::new(LP::new(0)));
        let id = base.id;
        let block = base.heap_ptr() as usize;
        let _ = Arc::count(&base);
        if kinds.contains(&Kind::B) {
            // the threads work through a reference to this one handle, which stays where it is
            // (boxed) until they have been joined
            let basep: *const Arc<LP> = suspend(|| Box::into_raw(Box::new(base)));
            let hs = kinds
                .iter()
                .map(|k| {
                    cap(|| match k {
                        Kind::B => LH::B(basep),
                        Kind::A => LH::A(unsafe { (*basep).clone() }),
                        Kind::O => LH::O(Arc::into_raw_offset(unsafe { (*basep).clone() })),
                        _ => unreachable!(),
                    })
                })
                .collect();
            return (LH::B(basep), hs, id, block);
        }
        let hs = kinds
            .iter()
            .map(|k| {
                cap(|| match k {
                    Kind::A => LH::A(base.clone()),
                    Kind::O => LH::O(Arc::into_raw_offset(base.clone())),
                    Kind::U1 => LH::U1(ArcUnion::from_first(base.clone())),
                    Kind::U2 => LH::U2(ArcUnion::from_second(base.clone())),
                    _ => unreachable!(),
                })
            })
            .collect();
        (LH::A(base), hs, id, block)
    }
}

pub fn main_thread_part(h: LH, main_reads: bool, rules: Rules) {
    bridge::sync_tid();
    if main_reads {
        let (ok, v) = cap(|| h.read());
        if ok && rules.readers_see_only_v0 && v != 0 {
            fail(WRITE, format!("main thread read the written value {} through its own handle", v));
        }
    }
    bridge::sync_tid();
    cap(|| drop(h));
}

/// End-of-execution oracle. Returns the outcome signature of this execution.
pub fn final_oracle(orig_id: u32, block: usize, plain: bool) -> String {
    let drops = suspend(|| DROPS.with(|d| d.borrow().clone()));
    let rel = suspend(|| bridge::RELEASES.with(|d| d.borrow().clone()));
    let recv = suspend(|| RECEIVED.with(|d| d.borrow().clone()));
    let facts = suspend(|| FACTS.with(|d| d.borrow().clone()));
    let od: Vec<_> = drops.iter().filter(|d| d.1 == orig_id).collect();
    if od.len() != 1 && !plain {
        fail(CONSERVE, format!("the shared value was destroyed {} times (by threads {:?}); must be exactly once", od.len(), od.iter().map(|d| d.0).collect::<Vec<_>>()));
    }
    let or: Vec<_> = rel.iter().filter(|r| r.1 == block).collect();
    if or.len() != 1 {
        fail(CONSERVE, format!("the shared value's memory was released {} times (by threads {:?}); must be exactly once", or.len(), or.iter().map(|d| d.0).collect::<Vec<_>>()));
    }
    let orecv: Vec<_> = recv.iter().filter(|r| r.1 == orig_id).collect();
    if orecv.len() > 1 {
        fail(CONSERVE, format!("the original value was moved out to {} threads", orecv.len()));
    }
    if let (Some(d), Some(r)) = (od.first(), or.first()) {
        if orecv.is_empty() && d.0 != r.0 {
            fail(CONSERVE, format!("value destroyed by thread {} but memory released by thread {}", d.0, r.0));
        }
        if let Some(rc) = orecv.first() {
            if rc.0 != r.0 || rc.0 != d.0 {
                fail(CONSERVE, format!("value moved out to thread {}, memory released by {}, destroyed by {}", rc.0, r.0, d.0));
            }
        }
    }
    // every other value created (copies) is destroyed exactly once too
    let mut ids: Vec<u32> = drops.iter().map(|d| d.1).collect();
    ids.sort();
    let n = NEXT_ID.with(|c| c.get()) - 1;
    let want: Vec<u32> = (1..=n).collect();
    if ids != want && !plain {
        fail(CONSERVE, format!("values created 1..={}, destructor log {:?}", n, ids));
    }
    let live = arena::live_blocks();
    if !live.is_empty() {
        fail(CONSERVE, format!("{} block(s) never released: {:?}", live.len(), live));
    }
    for e in arena::errors_since(0) {
        fail(CONSERVE, format!("allocator error {:?}", e));
    }
    let destroyer = if plain { or.first().map(|d| d.0 as i64).unwrap_or(-1) } else { od.first().map(|d| d.0 as i64).unwrap_or(-1) };
    format!("destroyer=t{} moved_out={:?} {}", destroyer, orecv.first().map(|r| r.0), facts.join(" "))
}
