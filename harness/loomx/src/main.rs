//! loomx — all interleavings and all legal load results of small thread programs on the
//! real crate, through the cfg(triomphe_verif) atomic shim (DESIGN §2.5).
mod bridge;
mod prog;

use prog::*;
use std::collections::{BTreeMap, BTreeSet, HashSet};
use std::hash::{Hash, Hasher};
use std::sync::atomic::{AtomicUsize, Ordering};
use std::sync::Mutex;
use std::time::Instant;
use vrt::json::J;

#[global_allocator]
static GLOBAL: vrt::VAlloc = vrt::VAlloc;

static EXECS: AtomicUsize = AtomicUsize::new(0);
static STEPS: AtomicUsize = AtomicUsize::new(0);
static OUTCOMES: Mutex<BTreeSet<String>> = Mutex::new(BTreeSet::new());
static SIGS: Mutex<Option<HashSet<u64>>> = Mutex::new(None);

#[derive(Clone, Debug)]
pub struct ProgSet {
    pub programs: Vec<Program>,
    pub writer: Option<usize>,
    pub main_reads: bool,
    pub readers_see_only_v0: bool,
    pub bound: Option<usize>,
    /// facts that must each be seen in at least one execution (non-vacuity), "a|b" = either
    pub expect_facts: Vec<String>,
}
impl ProgSet {
    fn text(&self) -> String {
        format!("[{}] writer={:?} main_reads={} bound={:?}{}", self.programs.iter().map(|p| p.text()).collect::<Vec<_>>().join(" || "), self.writer, self.main_reads, self.bound, if self.crowd() > 0 { format!(" crowd={}", self.crowd()) } else { String::new() })
    }
    /// extra handles the main thread holds while the programs run (so that the count is large) and releases before joining
    fn crowd(&self) -> usize {
        self.expect_facts.iter().find_map(|f| f.strip_prefix("@crowd=").and_then(|n| n.parse().ok())).unwrap_or(0)
    }
}

fn arg(args: &[String], name: &str) -> Option<String> {
    args.iter().position(|a| a == name).and_then(|i| args.get(i + 1).cloned())
}

/// all valid op sequences of length <= maxlen over `alphabet` starting from one handle of kind `k`
fn programs(k: Kind, alphabet: &[TOp], maxlen: usize) -> Vec<Program> {
    let mut out = vec![];
    fn rec(k: Kind, alphabet: &[TOp], maxlen: usize, ops: &mut Vec<TOp>, hs: &Vec<Kind>, out: &mut Vec<Program>) {
        out.push(Program { init: k, ops: ops.clone() });
        if ops.len() == maxlen {
            return;
        }
        for &op in alphabet {
            if !op_valid(op, hs) || hs.len() >= 3 && matches!(op, TOp::Clone | TOp::CloneArc) {
                continue;
            }
            let mut h2 = hs.clone();
            op_effect(op, &mut h2);
            ops.push(op);
            rec(k, alphabet, maxlen, ops, &h2, out);
            ops.pop();
        }
    }
    rec(k, alphabet, maxlen, &mut vec![], &vec![k], &mut out);
    // shortest first, then lexicographic: the first counterexample is the simplest
    out.sort_by(|a, b| (a.ops.len(), &a.ops).cmp(&(b.ops.len(), &b.ops)));
    out
}

#[allow(dead_code)]
fn same_universe(a: Kind, b: Kind) -> bool {
    matches!(a, Kind::T | Kind::F) == matches!(b, Kind::T | Kind::F)
}

fn multisets(ps: &[Program], n: usize) -> Vec<Vec<Program>> {
    fn rec(ps: &[Program], n: usize, start: usize, cur: &mut Vec<Program>, out: &mut Vec<Vec<Program>>) {
        if cur.len() == n {
            out.push(cur.clone());
            return;
        }
        for i in start..ps.len() {
            if let Some(f) = cur.first() {
                if !same_universe(f.init, ps[i].init) {
                    continue;
                }
            }
            cur.push(ps[i].clone());
            rec(ps, n, i, cur, out);
            cur.pop();
        }
    }
    let mut out = vec![];
    rec(ps, n, 0, &mut vec![], &mut out);
    out
}

fn gen_sets(prop: &str, tier: &str) -> Vec<ProgSet> {
    use TOp::*;
    if prop == "C04" {
        // the count while several threads clone through a shared reference to ONE handle (the
        // count is 1 while they race), and through handles of their own: after every thread has
        // released what it cloned the count must be exactly the number of handles left
        return gen_sets("C02", tier).into_iter().filter(|s| s.programs.iter().any(|p| p.init == Kind::B) || s.programs.len() == 2 && s.programs.iter().all(|p| p.ops.len() <= 2 && p.init == Kind::A)).collect();
    }
    let thorough = tier == "thorough";
    let mut sets = vec![];
    match prop {
        "C02" => {
            let alpha: Vec<TOp> = if thorough { vec![Read, Clone, CloneArc, Convert, Drop, DropFirst] } else { vec![Read, Clone, CloneArc, Convert, Drop] };
            let kinds: Vec<Kind> = if thorough { vec![Kind::A, Kind::O, Kind::U1, Kind::U2, Kind::T, Kind::F] } else { vec![Kind::A, Kind::O, Kind::U2, Kind::T] };
            let l2 = if thorough { 3 } else { 2 };
            let mut ps: Vec<Program> = kinds.iter().flat_map(|k| programs(*k, &alpha, l2)).collect();
            ps.sort_by(|a, b| (a.ops.len(), a.init, &a.ops).cmp(&(b.ops.len(), b.init, &b.ops)));
            // 2 spawned threads, unbounded
            let cap2 = if thorough { 5 } else { 3 };
            for m in multisets(&ps, 2) {
                if m.iter().map(|p| p.ops.len()).sum::<usize>() > cap2 {
                    continue;
                }
                sets.push(ProgSet { programs: m, writer: None, main_reads: true, readers_see_only_v0: false, bound: None, expect_facts: vec![] });
            }
            // 3 spawned threads, preemption-bounded
            let l3 = if thorough { 2 } else { 1 };
            let ps3: Vec<Program> = kinds.iter().flat_map(|k| programs(*k, &alpha, l3)).collect();
            for m in multisets(&ps3, 3) {
                if thorough && m.iter().map(|p| p.ops.len()).sum::<usize>() > 3 {
                    continue;
                }
                sets.push(ProgSet { programs: m, writer: None, main_reads: true, readers_see_only_v0: false, bound: Some(if thorough { 3 } else { 2 }), expect_facts: vec![] });
            }
            if thorough {
                let k4 = [Kind::A, Kind::O, Kind::U2, Kind::T];
                let ps4: Vec<Program> = k4.iter().flat_map(|k| programs(*k, &[Read, Clone, Drop], 1)).collect();
                for m in multisets(&ps4, 4) {
                    sets.push(ProgSet { programs: m, writer: None, main_reads: false, readers_see_only_v0: false, bound: Some(2), expect_facts: vec![] });
                }
            }
            // threads that clone through a shared reference to ONE handle (the count is 1 while they race)
            let bps: Vec<Program> = programs(Kind::B, &[Read, Clone, CloneArc, Drop], if thorough { 3 } else { 2 });
            let aps: Vec<Program> = programs(Kind::A, &[Read, Clone, Drop], 1);
            for (i, p1) in bps.iter().enumerate() {
                for p2 in bps[i..].iter().chain(aps.iter()) {
                    sets.push(ProgSet { programs: vec![p1.clone(), p2.clone()], writer: None, main_reads: true, readers_see_only_v0: false, bound: None, expect_facts: vec![] });
                }
            }
            if thorough {
                for m3 in multisets(&programs(Kind::B, &[Read, Clone, Drop], 1), 3) {
                    sets.push(ProgSet { programs: m3, writer: None, main_reads: true, readers_see_only_v0: false, bound: Some(3), expect_facts: vec![] });
                }
            }
            // payloads without drop glue: nothing may be skipped for them either
            assert!(!std::mem::needs_drop::<LN>(), "the plain payload must not have drop glue");
            for k in [Kind::N, Kind::TN] {
                let pp: Vec<Program> = programs(k, &[Read, Clone, CloneArc, Convert, Drop], 2);
                for m2 in multisets(&pp, 2) {
                    if m2.iter().map(|p| p.ops.len()).sum::<usize>() <= 3 {
                        sets.push(ProgSet { programs: m2, writer: None, main_reads: true, readers_see_only_v0: false, bound: None, expect_facts: vec![] });
                    }
                }
                let p1: Vec<Program> = programs(k, &[Read, Clone, Drop], 1);
                for m3 in multisets(&p1, 3) {
                    sets.push(ProgSet { programs: m3, writer: None, main_reads: true, readers_see_only_v0: false, bound: Some(if thorough { 3 } else { 2 }), expect_facts: vec![] });
                }
            }
            // the same races while the count is large (a path keyed on "widely shared" starts somewhere)
            for crowd in if thorough { vec![18usize, 40] } else { vec![18usize] } {
                let cp = [Program { init: Kind::A, ops: vec![Read, Drop] }, Program { init: Kind::A, ops: vec![Drop] }, Program { init: Kind::O, ops: vec![Read, Drop] }, Program { init: Kind::T, ops: vec![Read, Drop] }];
                for p1 in &cp {
                    sets.push(ProgSet { programs: vec![p1.clone()], writer: None, main_reads: false, readers_see_only_v0: false, bound: Some(3), expect_facts: vec![format!("@crowd={}", crowd)] });
                }
                sets.push(ProgSet { programs: vec![cp[0].clone(), cp[0].clone()], writer: None, main_reads: false, readers_see_only_v0: false, bound: Some(2), expect_facts: vec![format!("@crowd={}", crowd)] });
            }
            // simplest first across the groups, so that a wall-clock cap cuts every group proportionally
            sets.sort_by_key(|s| (s.programs.iter().map(|p| p.ops.len()).sum::<usize>() + s.programs.len(), s.programs.len()));
        }
        "C03" => {
            // one writer polls for uniqueness (<=2 attempts) and mutates; others read and drop
            let attempts_a = [GetMutW, GetUniqueW, TryUniqueW, IsUniqueGetMutW];
            let mut writers: Vec<Program> = vec![];
            for k in [Kind::A, Kind::F] {
                for a in attempts_a {
                    writers.push(Program { init: k, ops: vec![a] });
                    writers.push(Program { init: k, ops: vec![a, Read] });
                    for b in attempts_a {
                        if thorough || a == b {
                            writers.push(Program { init: k, ops: vec![a, b] });
                        }
                    }
                }
            }
            // the in-place branch of make_mut / make_unique / OffsetArc::make_mut is a uniqueness grant too
            for (k, op) in [(Kind::A, MakeMutW), (Kind::A, MakeUniqueW), (Kind::O, MakeMutW)] {
                writers.push(Program { init: k, ops: vec![op] });
            }
            // moving the value out (and then writing to it) is the strongest grant of all
            for op in [TryUnwrap, TryUniqueInner, UnwrapOrClone] {
                writers.push(Program { init: Kind::A, ops: vec![op] });
            }
            writers.push(Program { init: Kind::MS, ops: vec![DepWriteW] });
            writers.push(Program { init: Kind::MS, ops: vec![DepWriteW, DepWriteW] });
            writers.push(Program { init: Kind::T, ops: vec![WithArcMutW] });
            writers.push(Program { init: Kind::T, ops: vec![WithArcMutW, WithArcMutW] });
            let readers = |thin: bool, ms: bool| -> Vec<Program> {
                let ks: Vec<Kind> = if ms { vec![Kind::MS] } else if thin { vec![Kind::T, Kind::F] } else { vec![Kind::A, Kind::O, Kind::U2] };
                let mut v = vec![];
                for k in ks {
                    v.push(Program { init: k, ops: vec![Read, Drop] });
                    v.push(Program { init: k, ops: vec![Drop] });
                    v.push(Program { init: k, ops: vec![Clone, Read, Drop, Drop] });
                    if thorough {
                        v.push(Program { init: k, ops: vec![Read, Clone, DropFirst, Read] });
                        v.push(Program { init: k, ops: vec![CloneArc, DropFirst, Read] });
                    }
                }
                v
            };
            for w in &writers {
                let thin = matches!(w.init, Kind::T | Kind::F);
                let rs = readers(thin, w.init == Kind::MS);
                let fact = format!("{}=true|{}=1|{}=in_place", fact_name(w.ops[0]), fact_name(w.ops[0]), fact_name(w.ops[0]));
                let nofact = format!("{}=false|{}=0|{}=copied", fact_name(w.ops[0]), fact_name(w.ops[0]), fact_name(w.ops[0]));
                let unwraps = matches!(w.ops[0], TryUnwrap | TryUniqueInner | UnwrapOrClone);
                for r in &rs {
                    let facts = if unwraps { vec![] } else { vec![fact.clone(), nofact.clone()] };
                    sets.push(ProgSet { programs: vec![w.clone(), r.clone()], writer: Some(0), main_reads: false, readers_see_only_v0: true, bound: None, expect_facts: facts });
                }
                for (i, r1) in rs.iter().enumerate() {
                    for r2 in &rs[i..] {
                        if !thorough && r1.ops.len() + r2.ops.len() > 4 {
                            continue;
                        }
                        sets.push(ProgSet { programs: vec![w.clone(), r1.clone(), r2.clone()], writer: Some(0), main_reads: false, readers_see_only_v0: true, bound: Some(if thorough { 3 } else { 2 }), expect_facts: vec![] });
                    }
                }
            }
        }
        "C08" => {
            let mut writers = vec![];
            for (k, op) in [(Kind::A, MakeMutW), (Kind::A, MakeUniqueW), (Kind::O, MakeMutW)] {
                writers.push(Program { init: k, ops: vec![op] });
                writers.push(Program { init: k, ops: vec![op, Read] });
                writers.push(Program { init: k, ops: vec![op, op] });
                if thorough {
                    writers.push(Program { init: k, ops: vec![Clone, op, Drop] });
                }
            }
            let mut rs = vec![];
            for k in [Kind::A, Kind::O, Kind::U2] {
                rs.push(Program { init: k, ops: vec![Read, Drop] });
                rs.push(Program { init: k, ops: vec![Drop] });
                rs.push(Program { init: k, ops: vec![Clone, Read, Drop, Drop] });
                rs.push(Program { init: k, ops: vec![Read, Read] });
                if thorough {
                    rs.push(Program { init: k, ops: vec![CloneArc, DropFirst, Read] });
                }
            }
            for w in &writers {
                for r in &rs {
                    // a writer that first clones its own handle can never be the sole owner
                    let facts: Vec<String> = if w.ops[0] == Clone { vec!["make_mut=copied".into()] } else { vec!["make_mut=in_place".into(), "make_mut=copied".into()] };
                    sets.push(ProgSet { programs: vec![w.clone(), r.clone()], writer: Some(0), main_reads: false, readers_see_only_v0: true, bound: None, expect_facts: facts });
                    // with the main thread also holding and reading
                    sets.push(ProgSet { programs: vec![w.clone(), r.clone()], writer: Some(0), main_reads: true, readers_see_only_v0: true, bound: None, expect_facts: vec![] });
                }
                for (i, r1) in rs.iter().enumerate() {
                    for r2 in &rs[i..] {
                        if !thorough && r1.ops.len() + r2.ops.len() > 3 {
                            continue;
                        }
                        sets.push(ProgSet { programs: vec![w.clone(), r1.clone(), r2.clone()], writer: Some(0), main_reads: false, readers_see_only_v0: true, bound: Some(if thorough { 3 } else { 2 }), expect_facts: vec![] });
                    }
                }
            }
        }
        "C09" => {
            let acts = [TryUnwrap, TryUniqueInner, UnwrapOrClone, Drop];
            let mut ps = vec![];
            for a in acts {
                ps.push(Program { init: Kind::A, ops: vec![a] });
            }
            for a in [TryUnwrap, TryUniqueInner] {
                ps.push(Program { init: Kind::A, ops: vec![a, a] }); // retry after a decline
                ps.push(Program { init: Kind::A, ops: vec![Read, a] });
                ps.push(Program { init: Kind::A, ops: vec![Clone, a] });
            }
            ps.push(Program { init: Kind::A, ops: vec![Read, UnwrapOrClone] });
            for m in multisets(&ps, 2) {
                for main_reads in [false, true] {
                    sets.push(ProgSet { programs: m.clone(), writer: None, main_reads, readers_see_only_v0: false, bound: None, expect_facts: vec![] });
                }
            }
            for m in multisets(&ps, 3) {
                if !thorough && m.iter().map(|p| p.ops.len()).sum::<usize>() > 4 {
                    continue;
                }
                sets.push(ProgSet { programs: m, writer: None, main_reads: false, readers_see_only_v0: false, bound: Some(if thorough { 3 } else { 2 }), expect_facts: vec![] });
            }
        }
        "C17" => {
            // deserialize_in_place while other threads read and release the value the handle shared
            let mut writers = vec![];
            for op in [DeserInPlaceW, DeserInPlaceErr] {
                writers.push(Program { init: Kind::A, ops: vec![op] });
                writers.push(Program { init: Kind::A, ops: vec![op, Read] });
                writers.push(Program { init: Kind::A, ops: vec![Read, op] });
                writers.push(Program { init: Kind::A, ops: vec![Clone, op, Drop] });
                writers.push(Program { init: Kind::A, ops: vec![op, op] });
                if thorough {
                    writers.push(Program { init: Kind::A, ops: vec![op, Clone, Drop] });
                    writers.push(Program { init: Kind::A, ops: vec![GetMutW, op] });
                    writers.push(Program { init: Kind::A, ops: vec![op, GetMutW] });
                }
            }
            writers.push(Program { init: Kind::A, ops: vec![DeserInPlaceErr, DeserInPlaceW] });
            let mut rs = vec![];
            for k in [Kind::A, Kind::O, Kind::U2] {
                rs.push(Program { init: k, ops: vec![Read, Drop] });
                rs.push(Program { init: k, ops: vec![Drop] });
                rs.push(Program { init: k, ops: vec![Clone, Read, Drop, Drop] });
                rs.push(Program { init: k, ops: vec![Read, Read] });
                if thorough {
                    rs.push(Program { init: k, ops: vec![CloneArc, DropFirst, Read] });
                }
            }
            for w in &writers {
                for r in &rs {
                    for main_reads in [false, true] {
                        sets.push(ProgSet { programs: vec![w.clone(), r.clone()], writer: Some(0), main_reads, readers_see_only_v0: true, bound: None, expect_facts: vec![] });
                    }
                }
                for (i, r1) in rs.iter().enumerate() {
                    for r2 in &rs[i..] {
                        if !thorough && r1.ops.len() + r2.ops.len() > 3 {
                            continue;
                        }
                        sets.push(ProgSet { programs: vec![w.clone(), r1.clone(), r2.clone()], writer: Some(0), main_reads: false, readers_see_only_v0: true, bound: Some(if thorough { 3 } else { 2 }), expect_facts: vec![] });
                    }
                }
            }
        }
        _ => panic!("no loom program sets for {}", prop),
    }
    sets
}

fn fact_name(op: TOp) -> &'static str {
    match op {
        TOp::GetMutW => "get_mut",
        TOp::GetUniqueW => "get_unique",
        TOp::TryUniqueW => "try_unique",
        TOp::IsUniqueGetMutW => "is_unique_get_mut",
        TOp::WithArcMutW => "with_arc_mut_get_mut",
        TOp::DepWriteW => "dep_write",
        TOp::MakeMutW | TOp::MakeUniqueW => "make_mut",
        _ => "?",
    }
}

struct SetResult {
    executions: usize,
    outcomes: BTreeSet<String>,
    signatures: usize,
    failure: Option<String>,
}

fn run_set(set: &ProgSet, budget_s: f64) -> SetResult {
    EXECS.store(0, Ordering::Relaxed);
    OUTCOMES.lock().unwrap().clear();
    *SIGS.lock().unwrap() = Some(HashSet::new());
    let mut b = loom::model::Builder::new();
    b.preemption_bound = set.bound;
    b.max_branches = 100_000;
    b.log = false;
    // one exploding set must not eat the whole budget: loom stops quietly at this limit and the
    // set is then reported as truncated (the run is not called exhaustive)
    b.max_duration = Some(std::time::Duration::from_secs_f64(budget_s.max(5.0)));
    let set2 = std::sync::Arc::new(set.clone());
    let res = std::panic::catch_unwind(std::panic::AssertUnwindSafe(|| {
        b.check(move || {
            vrt::begin_execution();
            bridge::reset_execution();
            prog::reset_execution();
            bridge::register_thread(0);
            let rules = Rules { readers_see_only_v0: set2.readers_see_only_v0 };
            let kinds: Vec<Kind> = set2.programs.iter().map(|p| p.init).collect();
            let (mainh, ths, id, block) = setup(&kinds);
            let crowd: Vec<LH> = (0..set2.crowd()).map(|_| vrt::arena::cap(|| mainh.clone_same())).collect();
            let mut joins = Vec::new();
            for (i, h) in ths.into_iter().enumerate() {
                let s = set2.clone();
                joins.push(loom::thread::spawn(move || {
                    run_program(i as u32 + 1, &s.programs[i], h, s.writer == Some(i), rules);
                }));
            }
            if let LH::B(p) = mainh {
                // shared-reference sets: the handle must outlive the threads that borrow it
                for j in joins {
                    j.join().unwrap();
                }
                bridge::sync_tid();
                let arc: triomphe::Arc<LP> = *vrt::arena::suspend(|| unsafe { Box::from_raw(p as *mut triomphe::Arc<LP>) });
                let c = triomphe::Arc::count(&arc);
                if c != 1 {
                    bridge::fail(bridge::CONSERVE, format!("every thread has released what it cloned, one handle is left, and the count is {}", c));
                }
                main_thread_part(LH::A(arc), true, rules);
            } else {
                main_thread_part(mainh, set2.main_reads, rules);
                for h in crowd {
                    bridge::sync_tid();
                    vrt::arena::cap(|| drop(h));
                }
                for j in joins {
                    j.join().unwrap();
                }
            }
            bridge::sync_tid();
            let plain = kinds.iter().any(|k| matches!(k, Kind::N | Kind::TN | Kind::MS));
            let out = final_oracle(id, block, plain);
            EXECS.fetch_add(1, Ordering::Relaxed);
            let sig = bridge::SIG.with(|s| {
                let mut h = std::collections::hash_map::DefaultHasher::new();
                s.borrow().hash(&mut h);
                STEPS.fetch_add(s.borrow().len(), Ordering::Relaxed);
                h.finish()
            });
            SIGS.lock().unwrap().as_mut().unwrap().insert(sig);
            let mut facts: Vec<&str> = out.split(' ').collect();
            facts.sort();
            OUTCOMES.lock().unwrap().insert(facts.join(" "));
            if let Some(f) = bridge::failure() {
                let trace = bridge::SIG.with(|s| s.borrow().iter().map(|e| format!("t{}:{}={}", e.tid, e.op, e.val)).collect::<Vec<_>>().join(" "));
                panic!("LOOMX-VIOLATION {} ## schedule: {}", f, trace);
            }
        });
    }));
    let failure = match res {
        Ok(()) => None,
        Err(e) => Some(if let Some(s) = e.downcast_ref::<String>() {
            s.clone()
        } else if let Some(s) = e.downcast_ref::<&str>() {
            s.to_string()
        } else {
            "<panic>".into()
        }),
    };
    SetResult { executions: EXECS.load(Ordering::Relaxed), outcomes: OUTCOMES.lock().unwrap().clone(), signatures: SIGS.lock().unwrap().as_ref().map(|s| s.len()).unwrap_or(0), failure }
}

fn main() {
    let args: Vec<String> = std::env::args().collect();
    let prop = arg(&args, "--prop").expect("--prop");
    let tier = arg(&args, "--tier").unwrap_or("quick".into());
    let shard: usize = arg(&args, "--shard").map(|s| s.parse().unwrap()).unwrap_or(0);
    let of: usize = arg(&args, "--of").map(|s| s.parse().unwrap()).unwrap_or(1);
    let wall: f64 = arg(&args, "--wall").map(|s| s.parse().unwrap()).unwrap_or(50.0);
    let only: Option<usize> = arg(&args, "--only-set").map(|s| s.parse().unwrap());
    let start_after: Option<usize> = arg(&args, "--start-after").map(|s| s.parse().unwrap());
    std::panic::set_hook(Box::new(|_| {}));
    vrt::arena::init_thread(1 << 20, 2048, 8192);
    bridge::install();
    let owned = match prop.as_str() {
        "C02" => bridge::ORDER | bridge::CONSERVE,
        "C03" => bridge::WRITE,
        "C08" => bridge::WRITE | bridge::COWSEM | bridge::CONSERVE,
        "C09" => bridge::CONSERVE | bridge::WRITE,
        "C04" => bridge::CONSERVE | bridge::ORDER,
        _ => u32::MAX,
    };
    bridge::OWNED.store(owned, Ordering::Relaxed);
    let sets = gen_sets(&prop, &tier);
    if args.iter().any(|a| a == "--count") {
        println!("{}", sets.len());
        return;
    }
    let t0 = Instant::now();
    let mut done = 0usize;
    let mut execs = 0usize;
    let mut sigs = 0usize;
    let mut outcomes_total = 0usize;
    let mut multi_outcome_sets = 0usize;
    let mut capped = false;
    let mut samples: Vec<J> = vec![];
    let mut facts_seen: BTreeMap<usize, BTreeSet<String>> = BTreeMap::new();
    let mut vacuous: Vec<String> = vec![];
    let mut max_execs = 0usize;
    for (idx, set) in sets.iter().enumerate() {
        if idx % of != shard {
            continue;
        }
        if let Some(o) = only {
            if idx != o {
                continue;
            }
        }
        if let Some(s) = start_after {
            if idx <= s {
                continue;
            }
        }
        if t0.elapsed().as_secs_f64() > wall {
            capped = true;
            break;
        }
        println!("BEGIN {} {}", idx, set.text());
        let t_set = Instant::now();
        let budget = (wall - t0.elapsed().as_secs_f64()).max(5.0);
        let r = run_set(set, budget);
        if t_set.elapsed().as_secs_f64() >= budget {
            capped = true;
            println!("TRUNCATED {} {}", idx, set.text());
        }
        if let Some(f) = r.failure {
            let mut o = J::obj();
            o.set("set_index", J::i(idx));
            o.set("set", J::s(set.text()));
            o.set("message", J::s(f.clone()));
            o.set("executions_before_failure", J::i(r.executions));
            println!("FAIL {}", o.dump());
            std::process::exit(if f.contains("LOOMX-VIOLATION") { 1 } else { 4 });
        }
        done += 1;
        execs += r.executions;
        sigs += r.signatures;
        max_execs = max_execs.max(r.executions);
        outcomes_total += r.outcomes.len();
        if r.outcomes.len() > 1 {
            multi_outcome_sets += 1;
        }
        for want in &set.expect_facts {
            if want.starts_with('@') {
                continue; // a parameter of the set, not an expected outcome
            }
            let alts: Vec<&str> = want.split('|').collect();
            let hit = r.outcomes.iter().any(|o| alts.iter().any(|a| o.contains(a)));
            if !hit {
                vacuous.push(format!("set {} never showed {}", idx, want));
            }
        }
        facts_seen.entry(set.programs.len()).or_default().extend(r.outcomes.iter().cloned());
        if samples.len() < 4 && (samples.is_empty() || r.outcomes.len() > 1 || idx % 50 == 0) {
            let mut s = J::obj();
            s.set("set", J::s(set.text()));
            s.set("executions", J::i(r.executions));
            s.set("distinct_schedule_signatures", J::i(r.signatures));
            s.set("outcomes", J::arr(r.outcomes.iter().cloned()));
            samples.push(s);
        }
    }
    let mut o = J::obj();
    o.set("prop", J::s(prop));
    o.set("tier", J::s(tier));
    o.set("shard", J::i(shard));
    o.set("sets_total", J::i(sets.len()));
    o.set("sets_done", J::i(done));
    o.set("executions", J::i(execs));
    o.set("atomic_steps", J::i(STEPS.load(Ordering::Relaxed)));
    o.set("max_executions_one_set", J::i(max_execs));
    o.set("distinct_schedule_signatures", J::i(sigs));
    o.set("distinct_outcomes_summed", J::i(outcomes_total));
    o.set("sets_with_more_than_one_outcome", J::i(multi_outcome_sets));
    o.set("capped", J::B(capped));
    o.set("out_of_scope_oracle_hits", J::i(bridge::OUT_OF_SCOPE.load(Ordering::Relaxed)));
    o.set("vacuous", J::arr(vacuous.iter().cloned()));
    o.set("samples", J::A(samples));
    o.set("wall_s", J::F(t0.elapsed().as_secs_f64()));
    println!("RESULT {}", o.dump());
}
