//! Identity-tracked payloads and the thread-local drop / clone logs.

use crate::arena::suspend;
use std::cell::{Cell, RefCell};

pub const MAGIC: u64 = 0x5452_4143_4b45_4421;
pub const DEAD: u64 = 0xDEAD_0BAD_DEAD_0BAD;
pub const FRESH_WORD: u64 = 0xA5A5_A5A5_A5A5_A5A5;
pub const FREED_WORD: u64 = 0xDDDD_DDDD_DDDD_DDDD;

thread_local! {
    static NEXT_ID: Cell<u32> = const { Cell::new(1) };
    static DROPS: RefCell<Vec<(u8, u32)>> = const { RefCell::new(Vec::new()) };
    static CLONES: RefCell<Vec<(u8, u32, u32)>> = const { RefCell::new(Vec::new()) };
    static PERR: RefCell<Vec<String>> = const { RefCell::new(Vec::new()) };
    static CLONE_PANIC_AT: Cell<usize> = const { Cell::new(0) };
    static CLONE_CALLS: Cell<usize> = const { Cell::new(0) };
    static CMP_PANIC_AT: Cell<usize> = const { Cell::new(0) };
    static DROP_PANIC_AT: Cell<usize> = const { Cell::new(0) };
    static DROP_CALLS: Cell<usize> = const { Cell::new(0) };
    static CMP_CALLS: Cell<usize> = const { Cell::new(0) };
}

pub fn reset() {
    NEXT_ID.with(|c| c.set(1));
    suspend(|| {
        DROPS.with(|d| d.borrow_mut().clear());
        CLONES.with(|d| d.borrow_mut().clear());
        PERR.with(|d| d.borrow_mut().clear());
    });
    CLONE_PANIC_AT.with(|c| c.set(0));
    CLONE_CALLS.with(|c| c.set(0));
    CMP_PANIC_AT.with(|c| c.set(0));
    CMP_CALLS.with(|c| c.set(0));
    DROP_PANIC_AT.with(|c| c.set(0));
    DROP_CALLS.with(|c| c.set(0));
}
/// Arm a panic inside the k-th payload destructor from now (0 disarms). The destructor has
/// already logged itself and marked the value destroyed when it panics.
pub fn arm_drop_panic(k: usize) {
    DROP_CALLS.with(|c| c.set(0));
    DROP_PANIC_AT.with(|c| c.set(k));
}
pub fn next_id_peek() -> u32 {
    NEXT_ID.with(|c| c.get())
}
fn fresh_id() -> u32 {
    NEXT_ID.with(|c| {
        let v = c.get();
        c.set(v + 1);
        v
    })
}
/// Append to the destructor log from a harness-defined payload type.
pub fn log_drop(tag: u8, id: u32) {
    suspend(|| DROPS.with(|d| d.borrow_mut().push((tag, id))));
}
/// Fresh identity for harness-defined payload types.
pub fn new_id() -> u32 {
    fresh_id()
}
pub fn n_drops() -> usize {
    DROPS.with(|d| d.borrow().len())
}
pub fn drops_since(k: usize) -> Vec<(u8, u32)> {
    suspend(|| DROPS.with(|d| d.borrow()[k..].to_vec()))
}
pub fn n_clones() -> usize {
    CLONES.with(|d| d.borrow().len())
}
pub fn clones_since(k: usize) -> Vec<(u8, u32, u32)> {
    suspend(|| CLONES.with(|d| d.borrow()[k..].to_vec()))
}
pub fn n_perr() -> usize {
    PERR.with(|d| d.borrow().len())
}
pub fn perr_since(k: usize) -> Vec<String> {
    suspend(|| PERR.with(|d| d.borrow()[k..].to_vec()))
}
pub fn perr(msg: String) {
    suspend(|| PERR.with(|d| d.borrow_mut().push(msg)));
}
/// Arm a panic at the k-th `Clone::clone` call from now (0 disarms).
pub fn arm_clone_panic(k: usize) {
    CLONE_CALLS.with(|c| c.set(0));
    CLONE_PANIC_AT.with(|c| c.set(k));
}
pub fn clone_calls() -> usize {
    CLONE_CALLS.with(|c| c.get())
}
/// Arm a panic at the k-th comparison / hash / format call from now (0 disarms).
pub fn arm_cmp_panic(k: usize) {
    CMP_CALLS.with(|c| c.set(0));
    CMP_PANIC_AT.with(|c| c.set(k));
}
pub fn cmp_calls() -> usize {
    CMP_CALLS.with(|c| c.get())
}
fn cmp_point() {
    let n = CMP_CALLS.with(|c| {
        c.set(c.get() + 1);
        c.get()
    });
    if CMP_PANIC_AT.with(|c| c.get()) == n {
        suspend(|| panic!("vrt: armed comparison panic"));
    }
}

/// What a read of a tracked payload saw.
#[derive(Clone, Copy, Debug, PartialEq, Eq)]
pub struct Peek {
    pub magic: u64,
    pub id: u32,
    pub val: u32,
}
impl Peek {
    pub fn intact(&self) -> bool {
        self.magic == MAGIC
    }
    pub fn describe(&self) -> &'static str {
        match self.magic {
            MAGIC => "intact",
            DEAD => "already-destroyed",
            FRESH_WORD => "never-written",
            FREED_WORD => "freed-memory",
            _ => "garbage",
        }
    }
}

#[repr(C)]
pub struct Tracked<const TAG: u8> {
    magic: u64,
    id: u32,
    val: u32,
}

impl<const TAG: u8> Tracked<TAG> {
    pub fn new(val: u32) -> Self {
        Tracked { magic: MAGIC, id: fresh_id(), val }
    }
    #[inline(never)]
    pub fn peek(&self) -> Peek {
        // volatile: the memory may be freed or uninitialised on a broken tree
        unsafe {
            let p = self as *const Self;
            Peek {
                magic: std::ptr::read_volatile(std::ptr::addr_of!((*p).magic)),
                id: std::ptr::read_volatile(std::ptr::addr_of!((*p).id)),
                val: std::ptr::read_volatile(std::ptr::addr_of!((*p).val)),
            }
        }
    }
    pub fn id(&self) -> u32 {
        self.id
    }
    pub fn val(&self) -> u32 {
        self.val
    }
    pub fn set_val(&mut self, v: u32) {
        self.val = v;
    }
    pub fn flip(&mut self) {
        self.val ^= 1;
    }
}

impl<const TAG: u8> Drop for Tracked<TAG> {
    fn drop(&mut self) {
        let pk = self.peek();
        if !pk.intact() {
            perr(format!("destructor of Tracked<{}> ran on {} memory (magic={:#x} id={:#x})", TAG, pk.describe(), pk.magic, pk.id));
        }
        suspend(|| DROPS.with(|d| d.borrow_mut().push((TAG, pk.id))));
        unsafe { std::ptr::write_volatile(&mut self.magic, DEAD) };
        let at = DROP_PANIC_AT.with(|c| c.get());
        if at != 0 {
            let n = DROP_CALLS.with(|c| {
                c.set(c.get() + 1);
                c.get()
            });
            if n == at && !std::thread::panicking() {
                suspend(|| panic!("vrt: armed destructor panic"));
            }
        }
    }
}

impl<const TAG: u8> Clone for Tracked<TAG> {
    fn clone(&self) -> Self {
        let n = CLONE_CALLS.with(|c| {
            c.set(c.get() + 1);
            c.get()
        });
        if CLONE_PANIC_AT.with(|c| c.get()) == n {
            // the panic payload belongs to the harness: keep its allocation out of the capture window
            suspend(|| panic!("vrt: armed clone panic"));
        }
        let pk = self.peek();
        if !pk.intact() {
            perr(format!("Clone of Tracked<{}> read {} memory", TAG, pk.describe()));
        }
        let t = Tracked::new(pk.val);
        suspend(|| CLONES.with(|d| d.borrow_mut().push((TAG, pk.id, t.id))));
        t
    }
}

impl<const TAG: u8> Default for Tracked<TAG> {
    fn default() -> Self {
        Tracked::new(0)
    }
}
impl<const TAG: u8> PartialEq for Tracked<TAG> {
    fn eq(&self, o: &Self) -> bool {
        cmp_point();
        self.val == o.val
    }
}
impl<const TAG: u8> Eq for Tracked<TAG> {}
impl<const TAG: u8> PartialOrd for Tracked<TAG> {
    fn partial_cmp(&self, o: &Self) -> Option<std::cmp::Ordering> {
        cmp_point();
        self.val.partial_cmp(&o.val)
    }
}
impl<const TAG: u8> Ord for Tracked<TAG> {
    fn cmp(&self, o: &Self) -> std::cmp::Ordering {
        cmp_point();
        self.val.cmp(&o.val)
    }
}
impl<const TAG: u8> std::hash::Hash for Tracked<TAG> {
    fn hash<H: std::hash::Hasher>(&self, h: &mut H) {
        cmp_point();
        self.val.hash(h)
    }
}
impl<const TAG: u8> std::fmt::Debug for Tracked<TAG> {
    fn fmt(&self, f: &mut std::fmt::Formatter<'_>) -> std::fmt::Result {
        cmp_point();
        write!(f, "T{}:{}", TAG, self.val)
    }
}
impl<const TAG: u8> std::fmt::Display for Tracked<TAG> {
    fn fmt(&self, f: &mut std::fmt::Formatter<'_>) -> std::fmt::Result {
        cmp_point();
        write!(f, "t{}:{}", TAG, self.val)
    }
}

/// Over-aligned variant of [`Tracked`] (same identity / logs / API, alignment 64): exercises the
/// padding between the count word and the value in every handle representation.
#[repr(C, align(64))]
pub struct TrackedW<const TAG: u8>(Tracked<TAG>);
impl<const TAG: u8> TrackedW<TAG> {
    pub fn new(val: u32) -> Self {
        TrackedW(Tracked::new(val))
    }
    pub fn peek(&self) -> Peek {
        self.0.peek()
    }
    pub fn id(&self) -> u32 {
        self.0.id()
    }
    pub fn val(&self) -> u32 {
        self.0.val()
    }
    pub fn set_val(&mut self, v: u32) {
        self.0.set_val(v)
    }
    pub fn flip(&mut self) {
        self.0.flip()
    }
}
impl<const TAG: u8> Clone for TrackedW<TAG> {
    fn clone(&self) -> Self {
        TrackedW(self.0.clone())
    }
}
impl<const TAG: u8> Default for TrackedW<TAG> {
    fn default() -> Self {
        TrackedW(Tracked::default())
    }
}
impl<const TAG: u8> PartialEq for TrackedW<TAG> {
    fn eq(&self, o: &Self) -> bool {
        self.0 == o.0
    }
}
impl<const TAG: u8> Eq for TrackedW<TAG> {}
impl<const TAG: u8> PartialOrd for TrackedW<TAG> {
    fn partial_cmp(&self, o: &Self) -> Option<std::cmp::Ordering> {
        self.0.partial_cmp(&o.0)
    }
}
impl<const TAG: u8> Ord for TrackedW<TAG> {
    fn cmp(&self, o: &Self) -> std::cmp::Ordering {
        self.0.cmp(&o.0)
    }
}
impl<const TAG: u8> std::hash::Hash for TrackedW<TAG> {
    fn hash<H: std::hash::Hasher>(&self, h: &mut H) {
        self.0.hash(h)
    }
}
impl<const TAG: u8> std::fmt::Debug for TrackedW<TAG> {
    fn fmt(&self, f: &mut std::fmt::Formatter<'_>) -> std::fmt::Result {
        self.0.fmt(f)
    }
}

/// Large variant of [`Tracked`] (313 bytes of payload after the tracked word, size 320, alignment 8):
/// exercises any size-dependent path (in-place cloning of "large" values and the like).
#[repr(C)]
pub struct TrackedB<const TAG: u8>(Tracked<TAG>, [u8; 297]);
impl<const TAG: u8> TrackedB<TAG> {
    pub fn new(val: u32) -> Self {
        TrackedB(Tracked::new(val), [0x42; 297])
    }
    pub fn peek(&self) -> Peek {
        let mut p = self.0.peek();
        if p.intact() && self.1.iter().any(|b| *b != 0x42) {
            p.magic = 0x0BAD_0BAD_0BAD_0BAD; // the tail of the large value is damaged
        }
        p
    }
    pub fn id(&self) -> u32 {
        self.0.id()
    }
    pub fn val(&self) -> u32 {
        self.0.val()
    }
    pub fn set_val(&mut self, v: u32) {
        self.0.set_val(v)
    }
    pub fn flip(&mut self) {
        self.0.flip()
    }
}
impl<const TAG: u8> Clone for TrackedB<TAG> {
    fn clone(&self) -> Self {
        TrackedB(self.0.clone(), self.1)
    }
}
impl<const TAG: u8> Default for TrackedB<TAG> {
    fn default() -> Self {
        TrackedB::new(0)
    }
}
impl<const TAG: u8> PartialEq for TrackedB<TAG> {
    fn eq(&self, o: &Self) -> bool {
        self.0 == o.0
    }
}
impl<const TAG: u8> Eq for TrackedB<TAG> {}
impl<const TAG: u8> PartialOrd for TrackedB<TAG> {
    fn partial_cmp(&self, o: &Self) -> Option<std::cmp::Ordering> {
        self.0.partial_cmp(&o.0)
    }
}
impl<const TAG: u8> Ord for TrackedB<TAG> {
    fn cmp(&self, o: &Self) -> std::cmp::Ordering {
        self.0.cmp(&o.0)
    }
}
impl<const TAG: u8> std::hash::Hash for TrackedB<TAG> {
    fn hash<H: std::hash::Hasher>(&self, h: &mut H) {
        self.0.hash(h)
    }
}
impl<const TAG: u8> std::fmt::Debug for TrackedB<TAG> {
    fn fmt(&self, f: &mut std::fmt::Formatter<'_>) -> std::fmt::Result {
        self.0.fmt(f)
    }
}
