//! Logging hook table: performs the real operation and records it.
use crate::arena::suspend;
use std::cell::RefCell;
use std::sync::atomic::{AtomicUsize, Ordering};
use triomphe::verif_hook::{set_hooks, Hooks, Rmw};

#[derive(Clone, Copy, Debug, PartialEq, Eq)]
pub enum AKind {
    Load,
    Store,
    Rmw(Rmw),
    Cas,
    Fence,
}
#[derive(Clone, Copy, Debug, PartialEq, Eq)]
pub struct AOp {
    pub kind: AKind,
    pub addr: usize,
    pub arg: usize,
    pub ret: usize,
    pub order: Ordering,
    /// value of the word before and after the operation (equal for loads, fences, failed CAS)
    pub old: usize,
    pub new: usize,
}
impl AOp {
    /// a write that CHANGED the value of the word. A compare_exchange(1, 1), a fetch_add(0) or a
    /// store of the value already there write nothing a property could observe.
    pub fn is_rmw(&self) -> bool {
        matches!(self.kind, AKind::Rmw(_) | AKind::Cas | AKind::Store) && self.old != self.new
    }
    /// signed change of the value
    pub fn delta(&self) -> isize {
        self.new.wrapping_sub(self.old) as isize
    }
}

thread_local! {
    static LOG: RefCell<Vec<AOp>> = const { RefCell::new(Vec::new()) };
}
fn push(op: AOp) {
    suspend(|| LOG.with(|l| l.borrow_mut().push(op)));
}
fn l_load(a: &AtomicUsize, o: Ordering) -> usize {
    let r = a.load(o);
    push(AOp { kind: AKind::Load, addr: a as *const _ as usize, arg: 0, ret: r, order: o, old: r, new: r });
    r
}
fn l_store(a: &AtomicUsize, v: usize, o: Ordering) {
    let old = a.load(Ordering::Relaxed);
    a.store(v, o);
    push(AOp { kind: AKind::Store, addr: a as *const _ as usize, arg: v, ret: 0, order: o, old, new: v });
}
pub fn do_rmw(k: Rmw, a: &AtomicUsize, v: usize, o: Ordering) -> usize {
    match k {
        Rmw::Swap => a.swap(v, o),
        Rmw::Add => a.fetch_add(v, o),
        Rmw::Sub => a.fetch_sub(v, o),
        Rmw::And => a.fetch_and(v, o),
        Rmw::Or => a.fetch_or(v, o),
        Rmw::Xor => a.fetch_xor(v, o),
        Rmw::Max => a.fetch_max(v, o),
        Rmw::Min => a.fetch_min(v, o),
    }
}
fn l_rmw(k: Rmw, a: &AtomicUsize, v: usize, o: Ordering) -> usize {
    let r = do_rmw(k, a, v, o);
    let new = match k {
        Rmw::Swap => v,
        Rmw::Add => r.wrapping_add(v),
        Rmw::Sub => r.wrapping_sub(v),
        Rmw::And => r & v,
        Rmw::Or => r | v,
        Rmw::Xor => r ^ v,
        Rmw::Max => r.max(v),
        Rmw::Min => r.min(v),
    };
    push(AOp { kind: AKind::Rmw(k), addr: a as *const _ as usize, arg: v, ret: r, order: o, old: r, new });
    r
}
fn l_cas(a: &AtomicUsize, c: usize, n: usize, s: Ordering, f: Ordering, weak: bool) -> Result<usize, usize> {
    let r = if weak { a.compare_exchange_weak(c, n, s, f) } else { a.compare_exchange(c, n, s, f) };
    let (old, new) = match r {
        Ok(v) => (v, n),
        Err(v) => (v, v),
    };
    push(AOp { kind: AKind::Cas, addr: a as *const _ as usize, arg: n, ret: old, order: s, old, new });
    r
}
fn l_fence(o: Ordering) {
    std::sync::atomic::fence(o);
    push(AOp { kind: AKind::Fence, addr: 0, arg: 0, ret: 0, order: o, old: 0, new: 0 });
}
static TABLE: Hooks = Hooks { load: l_load, store: l_store, rmw: l_rmw, cas: l_cas, fence: l_fence };

pub fn install() {
    set_hooks(Some(&TABLE));
}
pub fn uninstall() {
    set_hooks(None);
}
pub fn reset() {
    suspend(|| LOG.with(|l| l.borrow_mut().clear()));
}
pub fn len() -> usize {
    LOG.with(|l| l.borrow().len())
}
pub fn since(k: usize) -> Vec<AOp> {
    suspend(|| LOG.with(|l| l.borrow()[k..].to_vec()))
}
