//! Adversarial arena allocator (DESIGN §2.2).
//!
//! Installed as `#[global_allocator]` by every harness binary. Inside a
//! *capture window* (thread-local flag) allocations are served from a
//! per-thread arena and logged; outside they go to `System`. Deallocation is
//! routed by address, so a block keeps its origin whoever frees it.
//!
//! Properties: exact alignment (address ≡ a mod 2a), fresh poison 0xA5, freed
//! poison 0xDD, red zones, quarantine (no reuse before `reset`), event log,
//! error log (double free, wrong layout, interior free), fault injection.

use std::alloc::{GlobalAlloc, Layout, System};
use std::cell::{Cell, UnsafeCell};

pub const FRESH: u8 = 0xA5;
pub const FREED: u8 = 0xDD;
pub const RED: u8 = 0xFE;
const REDZONE: usize = 16;

#[derive(Clone, Copy, Debug, PartialEq, Eq)]
pub enum EvKind {
    Alloc,
    Dealloc,
    Refused,
}

#[derive(Clone, Copy, Debug, PartialEq, Eq)]
pub struct Event {
    pub kind: EvKind,
    pub addr: usize,
    pub size: usize,
    pub align: usize,
    pub tid: u32,
}

#[derive(Clone, Copy, Debug, PartialEq, Eq)]
pub enum ErrKind {
    DoubleFree,
    LayoutMismatch,
    NotABlock,
    RedZone,
    Overflowed, // log or block table full: machinery, not a verdict
}

#[derive(Clone, Copy, Debug, PartialEq, Eq)]
pub struct AllocError {
    pub kind: ErrKind,
    pub addr: usize,
    pub req_size: usize,
    pub req_align: usize,
    pub got_size: usize,
    pub got_align: usize,
}

#[derive(Clone, Copy)]
struct Block {
    addr: usize,
    size: usize,
    align: usize,
    live: bool,
}

struct State {
    base: *mut u8,
    size: usize,
    off: usize,
    blocks: *mut Block,
    nblocks: usize,
    cap_blocks: usize,
    events: *mut Event,
    nevents: usize,
    cap_events: usize,
    errors: *mut AllocError,
    nerrors: usize,
    cap_errors: usize,
    inwin_allocs: usize,
    fail_at: usize, // 0 = never; k = refuse the k-th in-window allocation
}

thread_local! {
    static ON_DEALLOC: Cell<Option<fn(usize, usize)>> = const { Cell::new(None) };
    static REFUSAL_FD: Cell<i32> = const { Cell::new(-1) };
    static WINDOW: Cell<bool> = const { Cell::new(false) };
    static TID: Cell<u32> = const { Cell::new(0) };
    static ST: UnsafeCell<State> = const { UnsafeCell::new(State {
        base: std::ptr::null_mut(), size: 0, off: 0,
        blocks: std::ptr::null_mut(), nblocks: 0, cap_blocks: 0,
        events: std::ptr::null_mut(), nevents: 0, cap_events: 0,
        errors: std::ptr::null_mut(), nerrors: 0, cap_errors: 0,
        inwin_allocs: 0, fail_at: 0,
    }) };
}

pub struct VAlloc;

fn with_state<R>(f: impl FnOnce(&mut State) -> R) -> Option<R> {
    ST.try_with(|s| f(unsafe { &mut *s.get() })).ok()
}

impl State {
    fn contains(&self, p: usize) -> bool {
        !self.base.is_null() && p >= self.base as usize && p < self.base as usize + self.size
    }
    fn push_event(&mut self, e: Event) {
        if self.nevents < self.cap_events {
            unsafe { *self.events.add(self.nevents) = e };
            self.nevents += 1;
        } else {
            self.push_error(AllocError {
                kind: ErrKind::Overflowed,
                addr: 0,
                req_size: 0,
                req_align: 0,
                got_size: 0,
                got_align: 0,
            });
        }
    }
    fn push_error(&mut self, e: AllocError) {
        if self.nerrors < self.cap_errors {
            unsafe { *self.errors.add(self.nerrors) = e };
            self.nerrors += 1;
        }
    }
    unsafe fn alloc(&mut self, layout: Layout, tid: u32) -> *mut u8 {
        self.inwin_allocs += 1;
        let a = layout.align();
        let sz = layout.size();
        if self.fail_at != 0 && self.inwin_allocs == self.fail_at {
            self.push_event(Event { kind: EvKind::Refused, addr: 0, size: sz, align: a, tid });
            report_refusal(sz, a);
            return std::ptr::null_mut();
        }
        // place at address ≡ a (mod 2a), after a red zone
        let start = self.base as usize + self.off + 1;
        let mut p = (start + a - 1) & !(a - 1);
        if p & a == 0 {
            p += a;
        }
        let end = match p.checked_add(sz).and_then(|e| e.checked_add(REDZONE)) {
            Some(e) => e,
            None => usize::MAX,
        };
        if end > self.base as usize + self.size || self.nblocks >= self.cap_blocks {
            report_refusal(sz, a);
            self.push_event(Event { kind: EvKind::Refused, addr: 0, size: sz, align: a, tid });
            return std::ptr::null_mut();
        }
        // red zones + fresh poison
        let lo = self.base as usize + self.off;
        std::ptr::write_bytes(lo as *mut u8, RED, p - lo);
        std::ptr::write_bytes(p as *mut u8, FRESH, sz);
        std::ptr::write_bytes((p + sz) as *mut u8, RED, REDZONE);
        self.off = p + sz + REDZONE - self.base as usize;
        *self.blocks.add(self.nblocks) = Block { addr: p, size: sz, align: a, live: true };
        self.nblocks += 1;
        self.push_event(Event { kind: EvKind::Alloc, addr: p, size: sz, align: a, tid });
        p as *mut u8
    }
    unsafe fn dealloc(&mut self, ptr: *mut u8, layout: Layout, tid: u32) {
        let p = ptr as usize;
        self.push_event(Event { kind: EvKind::Dealloc, addr: p, size: layout.size(), align: layout.align(), tid });
        let mut found = None;
        for i in 0..self.nblocks {
            let b = &mut *self.blocks.add(i);
            if b.addr == p {
                if found.is_none() || b.live {
                    found = Some(i);
                    if b.live {
                        break;
                    }
                }
            }
        }
        let Some(i) = found else {
            self.push_error(AllocError { kind: ErrKind::NotABlock, addr: p, req_size: 0, req_align: 0, got_size: layout.size(), got_align: layout.align() });
            return;
        };
        let b = &mut *self.blocks.add(i);
        let (bs, ba, live) = (b.size, b.align, b.live);
        if !live {
            self.push_error(AllocError { kind: ErrKind::DoubleFree, addr: p, req_size: bs, req_align: ba, got_size: layout.size(), got_align: layout.align() });
            return;
        }
        b.live = false;
        if bs != layout.size() || ba != layout.align() {
            self.push_error(AllocError { kind: ErrKind::LayoutMismatch, addr: p, req_size: bs, req_align: ba, got_size: layout.size(), got_align: layout.align() });
        }
        // red zone check (trailing REDZONE bytes and up to REDZONE leading bytes)
        let mut bad = false;
        for k in 0..REDZONE {
            if *((p + bs + k) as *const u8) != RED {
                bad = true;
            }
        }
        for k in 1..=REDZONE.min(p - self.base as usize) {
            if *((p - k) as *const u8) != RED {
                bad = true;
            }
        }
        if bad {
            self.push_error(AllocError { kind: ErrKind::RedZone, addr: p, req_size: bs, req_align: ba, got_size: 0, got_align: 0 });
        }
        std::ptr::write_bytes(p as *mut u8, FREED, bs);
    }
}

unsafe impl GlobalAlloc for VAlloc {
    unsafe fn alloc(&self, layout: Layout) -> *mut u8 {
        let win = WINDOW.try_with(|w| w.get()).unwrap_or(false);
        if win {
            let tid = TID.try_with(|t| t.get()).unwrap_or(0);
            if let Some(p) = with_state(|s| if s.base.is_null() { None } else { Some(s.alloc(layout, tid)) }).flatten() {
                return p;
            }
        }
        System.alloc(layout)
    }
    unsafe fn dealloc(&self, ptr: *mut u8, layout: Layout) {
        let tid = TID.try_with(|t| t.get()).unwrap_or(0);
        let handled = with_state(|s| {
            if s.contains(ptr as usize) {
                s.dealloc(ptr, layout, tid);
                true
            } else {
                false
            }
        })
        .unwrap_or(false);
        if !handled {
            System.dealloc(ptr, layout)
        } else if let Ok(Some(cb)) = ON_DEALLOC.try_with(|c| c.get()) {
            // outside the state borrow, window closed: the callback may allocate (from System)
            suspend(|| cb(ptr as usize, layout.size()));
        }
    }
    unsafe fn alloc_zeroed(&self, layout: Layout) -> *mut u8 {
        let p = self.alloc(layout);
        if !p.is_null() {
            std::ptr::write_bytes(p, 0, layout.size());
        }
        p
    }
    unsafe fn realloc(&self, ptr: *mut u8, layout: Layout, new_size: usize) -> *mut u8 {
        let in_arena = with_state(|s| s.contains(ptr as usize)).unwrap_or(false);
        let win = WINDOW.try_with(|w| w.get()).unwrap_or(false);
        if !in_arena && !win {
            return System.realloc(ptr, layout, new_size);
        }
        let new_layout = Layout::from_size_align_unchecked(new_size, layout.align());
        let np = self.alloc(new_layout);
        if !np.is_null() {
            std::ptr::copy_nonoverlapping(ptr, np, layout.size().min(new_size));
            self.dealloc(ptr, layout);
        }
        np
    }
}

/// Create this thread's arena (idempotent). Call outside the window.
pub fn init_thread(arena_bytes: usize, max_blocks: usize, max_events: usize) {
    with_state(|s| unsafe {
        if !s.base.is_null() {
            return;
        }
        s.base = System.alloc(Layout::from_size_align(arena_bytes, 4096).unwrap());
        assert!(!s.base.is_null());
        s.size = arena_bytes;
        s.blocks = System.alloc(Layout::array::<Block>(max_blocks).unwrap()) as *mut Block;
        s.cap_blocks = max_blocks;
        s.events = System.alloc(Layout::array::<Event>(max_events).unwrap()) as *mut Event;
        s.cap_events = max_events;
        s.errors = System.alloc(Layout::array::<AllocError>(256).unwrap()) as *mut AllocError;
        s.cap_errors = 256;
    });
    reset();
}

/// Forget all blocks and logs (start of an execution). Addresses repeat.
pub fn reset() {
    with_state(|s| {
        s.off = 0;
        s.nblocks = 0;
        s.nevents = 0;
        s.nerrors = 0;
        s.inwin_allocs = 0;
        s.fail_at = 0;
    });
    WINDOW.with(|w| w.set(false));
    TID.with(|t| t.set(0));
}

extern "C" {
    fn write(fd: i32, buf: *const u8, n: usize) -> isize;
}
/// Report every refused request on `fd` as "REFUSED size=<n> align=<a>" (async-signal-safe,
/// no allocation): used by child processes that die in the allocation-error abort.
pub fn set_refusal_fd(fd: i32) {
    let _ = REFUSAL_FD.try_with(|c| c.set(fd));
}
fn report_refusal(size: usize, align: usize) {
    let fd = REFUSAL_FD.try_with(|c| c.get()).unwrap_or(-1);
    if fd < 0 {
        return;
    }
    let mut buf = [0u8; 96];
    let mut n = 0;
    let mut put = |s: &[u8], n: &mut usize| {
        for b in s {
            buf[*n] = *b;
            *n += 1;
        }
    };
    fn digits(mut v: usize, out: &mut [u8; 24]) -> usize {
        let mut i = 24;
        loop {
            i -= 1;
            out[i] = b'0' + (v % 10) as u8;
            v /= 10;
            if v == 0 {
                break;
            }
        }
        i
    }
    let mut d = [0u8; 24];
    put(b"REFUSED size=", &mut n);
    let i = digits(size, &mut d);
    put(&d[i..], &mut n);
    put(b" align=", &mut n);
    let i = digits(align, &mut d);
    put(&d[i..], &mut n);
    put(b"\n", &mut n);
    unsafe { write(fd, buf.as_ptr(), n) };
}

/// Callback invoked after every arena deallocation (address, size). Must not unwind.
pub fn set_on_dealloc(cb: Option<fn(usize, usize)>) {
    let _ = ON_DEALLOC.try_with(|c| c.set(cb));
}

pub fn set_tid(t: u32) {
    let _ = TID.try_with(|c| c.set(t));
}
pub fn tid() -> u32 {
    TID.try_with(|c| c.get()).unwrap_or(0)
}

pub fn set_fail_at(k: usize) {
    with_state(|s| s.fail_at = k);
}
pub fn inwin_allocs() -> usize {
    with_state(|s| s.inwin_allocs).unwrap_or(0)
}

/// Run `f` with the capture window open.
pub fn cap<R>(f: impl FnOnce() -> R) -> R {
    struct G(bool);
    impl Drop for G {
        fn drop(&mut self) {
            let _ = WINDOW.try_with(|w| w.set(self.0));
        }
    }
    let _g = G(WINDOW.with(|w| w.replace(true)));
    f()
}

/// Run `f` with the capture window closed (harness bookkeeping inside callbacks).
pub fn suspend<R>(f: impl FnOnce() -> R) -> R {
    struct G(bool);
    impl Drop for G {
        fn drop(&mut self) {
            let _ = WINDOW.try_with(|w| w.set(self.0));
        }
    }
    let _g = G(WINDOW.try_with(|w| w.replace(false)).unwrap_or(false));
    f()
}

pub fn in_window() -> bool {
    WINDOW.try_with(|w| w.get()).unwrap_or(false)
}

pub fn n_events() -> usize {
    with_state(|s| s.nevents).unwrap_or(0)
}
pub fn events_since(from: usize) -> Vec<Event> {
    suspend(|| {
        with_state(|s| (from..s.nevents).map(|i| unsafe { *s.events.add(i) }).collect()).unwrap_or_default()
    })
}
pub fn n_errors() -> usize {
    with_state(|s| s.nerrors).unwrap_or(0)
}
pub fn errors_since(from: usize) -> Vec<AllocError> {
    suspend(|| {
        with_state(|s| (from..s.nerrors).map(|i| unsafe { *s.errors.add(i) }).collect()).unwrap_or_default()
    })
}

/// Live in-window blocks: (addr, size, align).
pub fn live_blocks() -> Vec<(usize, usize, usize)> {
    suspend(|| {
        with_state(|s| {
            (0..s.nblocks)
                .map(|i| unsafe { *s.blocks.add(i) })
                .filter(|b| b.live)
                .map(|b| (b.addr, b.size, b.align))
                .collect()
        })
        .unwrap_or_default()
    })
}

/// Is `addr` inside a block that has been freed (quarantined)?
pub fn is_freed(addr: usize) -> bool {
    with_state(|s| {
        (0..s.nblocks).any(|i| {
            let b = unsafe { *s.blocks.add(i) };
            !b.live && addr >= b.addr && addr < b.addr + b.size.max(1)
        })
    })
    .unwrap_or(false)
}

/// Block (addr,size,align,live) containing `addr`, if any.
pub fn block_of(addr: usize) -> Option<(usize, usize, usize, bool)> {
    with_state(|s| {
        (0..s.nblocks)
            .map(|i| unsafe { *s.blocks.add(i) })
            .rev()
            .find(|b| addr >= b.addr && addr < b.addr + b.size.max(1))
            .map(|b| (b.addr, b.size, b.align, b.live))
    })
    .flatten()
}

/// Check the red zones of all live blocks (end of execution).
pub fn check_redzones() -> Vec<usize> {
    suspend(|| {
        with_state(|s| {
            let mut bad = vec![];
            for i in 0..s.nblocks {
                let b = unsafe { *s.blocks.add(i) };
                if !b.live {
                    continue;
                }
                for k in 0..REDZONE {
                    if unsafe { *((b.addr + b.size + k) as *const u8) } != RED {
                        bad.push(b.addr);
                        break;
                    }
                }
            }
            bad
        })
        .unwrap_or_default()
    })
}
