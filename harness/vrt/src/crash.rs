//! Crash containment: a fatal-signal handler that writes the history in flight
//! (kept in a pre-allocated per-thread buffer) to a file and `_exit`s with a
//! distinctive code, so the driver can attribute the crash.
use std::cell::UnsafeCell;
use std::sync::atomic::{AtomicI32, Ordering};

pub const CRASH_EXIT: i32 = 77;
const BUF: usize = 4096;

thread_local! {
    static INFLIGHT: UnsafeCell<([u8; BUF], usize)> = const { UnsafeCell::new(([0u8; BUF], 0)) };
}
static FD: AtomicI32 = AtomicI32::new(-1);

extern "C" {
    fn signal(sig: i32, handler: usize) -> usize;
    fn write(fd: i32, buf: *const u8, n: usize) -> isize;
    fn _exit(code: i32) -> !;
    fn open(path: *const u8, flags: i32, mode: u32) -> i32;
}

/// Record what this thread is about to execute.
pub fn set_inflight(s: &str) {
    let _ = INFLIGHT.try_with(|c| unsafe {
        let (buf, len) = &mut *c.get();
        let n = s.len().min(BUF);
        buf[..n].copy_from_slice(&s.as_bytes()[..n]);
        *len = n;
    });
}

extern "C" fn on_signal(sig: i32) {
    unsafe {
        let fd = FD.load(Ordering::Relaxed);
        if fd >= 0 {
            let hdr = b"CRASH signal=";
            write(fd, hdr.as_ptr(), hdr.len());
            let d = [b'0' + (sig / 10) as u8, b'0' + (sig % 10) as u8, b' '];
            write(fd, d.as_ptr(), 3);
            let _ = INFLIGHT.try_with(|c| {
                let (buf, len) = &*c.get();
                write(fd, buf.as_ptr(), *len);
            });
            write(fd, b"\n".as_ptr(), 1);
        }
        _exit(CRASH_EXIT);
    }
}

/// Write a crash record for the case in flight with a free-form reason and exit like a crash.
pub fn report_and_exit(reason: &str) -> ! {
    unsafe {
        let fd = FD.load(Ordering::Relaxed);
        if fd >= 0 {
            let hdr = b"CRASH ";
            write(fd, hdr.as_ptr(), hdr.len());
            write(fd, reason.as_ptr(), reason.len());
            write(fd, b" :: ".as_ptr(), 4);
            let _ = INFLIGHT.try_with(|c| {
                let (buf, len) = &*c.get();
                write(fd, buf.as_ptr(), *len);
            });
            write(fd, b"\n".as_ptr(), 1);
        }
        _exit(CRASH_EXIT);
    }
}

/// Install handlers for SIGSEGV, SIGBUS, SIGILL, SIGFPE, SIGABRT; crash report goes to `path`.
pub fn install(path: &str) {
    let mut p = path.as_bytes().to_vec();
    p.push(0);
    // O_WRONLY|O_CREAT|O_TRUNC = 0x241 on linux
    let fd = unsafe { open(p.as_ptr(), 0x241, 0o644) };
    FD.store(fd, Ordering::Relaxed);
    for sig in [11, 7, 4, 8, 6] {
        unsafe { signal(sig, on_signal as usize) };
    }
}
