//! Crash containment: a fatal-signal handler that writes the history in flight
//! (kept in a pre-allocated per-thread buffer) to a file and `_exit`s with a
//! distinctive code, so the driver can attribute the crash.
use std::cell::UnsafeCell;
use std::sync::atomic::{AtomicI32, Ordering};

pub const CRASH_EXIT: i32 = 77;
const BUF: usize = 4096;

thread_local! {
    static INFLIGHT: UnsafeCell<([u8; BUF], usize)> = const { UnsafeCell::new(([0u8; BUF], 0)) };
    static SLOT: std::cell::Cell<usize> = const { std::cell::Cell::new(usize::MAX) };
}

// per-thread progress slots read by the watchdog thread
const NSLOTS: usize = 64;
const SBUF: usize = 1024;
struct Slot {
    buf: UnsafeCell<[u8; SBUF]>,
    len: std::sync::atomic::AtomicUsize,
    stamp_ms: std::sync::atomic::AtomicU64,
    busy: std::sync::atomic::AtomicBool,
}
unsafe impl Sync for Slot {}
#[allow(clippy::declare_interior_mutable_const)]
const EMPTY_SLOT: Slot = Slot { buf: UnsafeCell::new([0u8; SBUF]), len: std::sync::atomic::AtomicUsize::new(0), stamp_ms: std::sync::atomic::AtomicU64::new(0), busy: std::sync::atomic::AtomicBool::new(false) };
static SLOTS: [Slot; NSLOTS] = [EMPTY_SLOT; NSLOTS];
static NEXT_SLOT: std::sync::atomic::AtomicUsize = std::sync::atomic::AtomicUsize::new(0);

fn now_ms() -> u64 {
    use std::time::{SystemTime, UNIX_EPOCH};
    SystemTime::now().duration_since(UNIX_EPOCH).map(|d| d.as_millis() as u64).unwrap_or(0)
}

/// The calling thread is idle (between cases): the watchdog ignores it.
pub fn idle() {
    let _ = SLOT.try_with(|s| {
        if s.get() < NSLOTS {
            SLOTS[s.get()].busy.store(false, Ordering::Relaxed);
        }
    });
}

/// Start a watchdog: if some thread stays on one case for more than `secs`, the process writes a
/// crash record "hang" for that case and exits like a crash (a hang is then attributed and
/// reproduced by the driver instead of blocking the whole check).
pub fn start_watchdog(secs: u64) {
    std::thread::spawn(move || loop {
        std::thread::sleep(std::time::Duration::from_millis(500));
        let now = now_ms();
        for s in SLOTS.iter() {
            if s.busy.load(Ordering::Relaxed) {
                let t = s.stamp_ms.load(Ordering::Relaxed);
                if t != 0 && now.saturating_sub(t) > secs * 1000 {
                    unsafe {
                        let fd = FD.load(Ordering::Relaxed);
                        if fd >= 0 {
                            let hdr = b"CRASH hang ";
                            write(fd, hdr.as_ptr(), hdr.len());
                            let n = s.len.load(Ordering::Relaxed).min(SBUF);
                            write(fd, s.buf.get() as *const u8, n);
                            write(fd, b"\n".as_ptr(), 1);
                        }
                        _exit(CRASH_EXIT);
                    }
                }
            }
        }
    });
}
static FD: AtomicI32 = AtomicI32::new(-1);

extern "C" {
    fn signal(sig: i32, handler: usize) -> usize;
    fn write(fd: i32, buf: *const u8, n: usize) -> isize;
    fn _exit(code: i32) -> !;
    fn open(path: *const u8, flags: i32, mode: u32) -> i32;
}

/// Record what this thread is about to execute.
pub fn set_inflight(s: &str) {
    let _ = INFLIGHT.try_with(|c| unsafe {
        let (buf, len) = &mut *c.get();
        let n = s.len().min(BUF);
        buf[..n].copy_from_slice(&s.as_bytes()[..n]);
        *len = n;
    });
    let _ = SLOT.try_with(|sl| {
        if sl.get() == usize::MAX {
            sl.set(NEXT_SLOT.fetch_add(1, Ordering::Relaxed));
        }
        if sl.get() < NSLOTS {
            let slot = &SLOTS[sl.get()];
            let n = s.len().min(SBUF);
            unsafe { std::ptr::copy_nonoverlapping(s.as_ptr(), slot.buf.get() as *mut u8, n) };
            slot.len.store(n, Ordering::Relaxed);
            slot.stamp_ms.store(now_ms(), Ordering::Relaxed);
            slot.busy.store(true, Ordering::Relaxed);
        }
    });
}

extern "C" fn on_signal(sig: i32) {
    unsafe {
        let fd = FD.load(Ordering::Relaxed);
        if fd >= 0 {
            let hdr = b"CRASH signal=";
            write(fd, hdr.as_ptr(), hdr.len());
            let d = [b'0' + (sig / 10) as u8, b'0' + (sig % 10) as u8, b' '];
            write(fd, d.as_ptr(), 3);
            let _ = INFLIGHT.try_with(|c| {
                let (buf, len) = &*c.get();
                write(fd, buf.as_ptr(), *len);
            });
            write(fd, b"\n".as_ptr(), 1);
        }
        _exit(CRASH_EXIT);
    }
}

/// Write a crash record for the case in flight with a free-form reason and exit like a crash.
pub fn report_and_exit(reason: &str) -> ! {
    unsafe {
        let fd = FD.load(Ordering::Relaxed);
        if fd >= 0 {
            let hdr = b"CRASH ";
            write(fd, hdr.as_ptr(), hdr.len());
            write(fd, reason.as_ptr(), reason.len());
            write(fd, b" :: ".as_ptr(), 4);
            let _ = INFLIGHT.try_with(|c| {
                let (buf, len) = &*c.get();
                write(fd, buf.as_ptr(), *len);
            });
            write(fd, b"\n".as_ptr(), 1);
        }
        _exit(CRASH_EXIT);
    }
}

/// Install handlers for SIGSEGV, SIGBUS, SIGILL, SIGFPE, SIGABRT; crash report goes to `path`.
pub fn install(path: &str) {
    let mut p = path.as_bytes().to_vec();
    p.push(0);
    // O_WRONLY|O_CREAT|O_TRUNC = 0x241 on linux
    let fd = unsafe { open(p.as_ptr(), 0x241, 0o644) };
    FD.store(fd, Ordering::Relaxed);
    for sig in [11, 7, 4, 8, 6] {
        unsafe { signal(sig, on_signal as usize) };
    }
}
