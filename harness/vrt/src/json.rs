//! Minimal JSON value + writer (no external crates in the engines' hot path).
use std::collections::BTreeMap;
use std::fmt::Write;

#[derive(Clone, Debug, PartialEq)]
pub enum J {
    Null,
    B(bool),
    I(i64),
    F(f64),
    S(String),
    A(Vec<J>),
    O(BTreeMap<String, J>),
}
impl J {
    pub fn obj() -> J {
        J::O(BTreeMap::new())
    }
    pub fn set(&mut self, k: &str, v: J) -> &mut J {
        if let J::O(m) = self {
            m.insert(k.to_string(), v);
        }
        self
    }
    pub fn s(x: impl Into<String>) -> J {
        J::S(x.into())
    }
    pub fn i(x: impl TryInto<i64>) -> J {
        J::I(x.try_into().unwrap_or(i64::MAX))
    }
    pub fn arr<T: Into<J>>(v: impl IntoIterator<Item = T>) -> J {
        J::A(v.into_iter().map(Into::into).collect())
    }
    pub fn dump(&self) -> String {
        let mut s = String::new();
        self.w(&mut s);
        s
    }
    fn w(&self, o: &mut String) {
        match self {
            J::Null => o.push_str("null"),
            J::B(b) => o.push_str(if *b { "true" } else { "false" }),
            J::I(i) => {
                let _ = write!(o, "{}", i);
            }
            J::F(f) => {
                if f.is_finite() {
                    let _ = write!(o, "{}", f);
                } else {
                    o.push_str("null")
                }
            }
            J::S(s) => {
                o.push('"');
                for c in s.chars() {
                    match c {
                        '"' => o.push_str("\\\""),
                        '\\' => o.push_str("\\\\"),
                        '\n' => o.push_str("\\n"),
                        '\r' => o.push_str("\\r"),
                        '\t' => o.push_str("\\t"),
                        c if (c as u32) < 0x20 => {
                            let _ = write!(o, "\\u{:04x}", c as u32);
                        }
                        c => o.push(c),
                    }
                }
                o.push('"');
            }
            J::A(v) => {
                o.push('[');
                for (i, x) in v.iter().enumerate() {
                    if i > 0 {
                        o.push(',');
                    }
                    x.w(o);
                }
                o.push(']');
            }
            J::O(m) => {
                o.push('{');
                for (i, (k, v)) in m.iter().enumerate() {
                    if i > 0 {
                        o.push(',');
                    }
                    J::S(k.clone()).w(o);
                    o.push(':');
                    v.w(o);
                }
                o.push('}');
            }
        }
    }
}
impl From<&str> for J {
    fn from(s: &str) -> J {
        J::S(s.to_string())
    }
}
impl From<String> for J {
    fn from(s: String) -> J {
        J::S(s)
    }
}
impl From<usize> for J {
    fn from(s: usize) -> J {
        J::i(s)
    }
}
impl From<u64> for J {
    fn from(s: u64) -> J {
        J::i(s)
    }
}
impl From<i64> for J {
    fn from(s: i64) -> J {
        J::I(s)
    }
}
impl From<bool> for J {
    fn from(s: bool) -> J {
        J::B(s)
    }
}
impl From<f64> for J {
    fn from(s: f64) -> J {
        J::F(s)
    }
}
impl From<Vec<J>> for J {
    fn from(s: Vec<J>) -> J {
        J::A(s)
    }
}
