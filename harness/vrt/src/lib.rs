//! Harness runtime shared by the engines (DESIGN §2.2).
pub mod arena;
pub mod crash;
pub mod json;
pub mod rmwlog;
pub mod track;

pub use arena::VAlloc;

/// Start of one execution: fresh arena, logs, ids.
pub fn begin_execution() {
    arena::reset();
    track::reset();
    rmwlog::reset();
}

/// Run `f`, catching a panic; returns Err(message) on panic.
pub fn catch<R>(f: impl FnOnce() -> R) -> Result<R, String> {
    match std::panic::catch_unwind(std::panic::AssertUnwindSafe(f)) {
        Ok(r) => Ok(r),
        Err(e) => Err(arena::suspend(|| {
            if let Some(s) = e.downcast_ref::<&str>() {
                s.to_string()
            } else if let Some(s) = e.downcast_ref::<String>() {
                s.clone()
            } else {
                "<non-string panic>".to_string()
            }
        })),
    }
}

/// Silence the default panic message (expected panics are part of exploration).
pub fn quiet_panics() {
    std::panic::set_hook(Box::new(|_| {}));
}
