//! Harness runtime shared by the engines (DESIGN §2.2).
pub mod arena;
pub mod crash;
pub mod json;
pub mod rmwlog;
pub mod track;

pub use arena::VAlloc;

/// Start of one execution: fresh arena, logs, ids.
pub fn begin_execution() {
    arena::reset();
    track::reset();
    rmwlog::reset();
}

/// Run `f`, catching a panic; returns Err(message) on panic.
pub fn catch<R>(f: impl FnOnce() -> R) -> Result<R, String> {
    match std::panic::catch_unwind(std::panic::AssertUnwindSafe(f)) {
        Ok(r) => Ok(r),
        Err(e) => Err(arena::suspend(|| {
            if let Some(s) = e.downcast_ref::<&str>() {
                s.to_string()
            } else if let Some(s) = e.downcast_ref::<String>() {
                s.clone()
            } else {
                "<non-string panic>".to_string()
            }
        })),
    }
}

/// Silence the default panic message (expected panics are part of exploration).
pub fn quiet_panics() {
    std::panic::set_hook(Box::new(|_| {}));
}

/// Run `f` while the thread is already unwinding from a panic (inside a destructor that the
/// unwind runs), and hand its result out. Code that asks `std::thread::panicking()` takes its
/// other branch here. `f` itself must not panic (that would be a double panic: abort).
pub fn during_unwind<R>(f: impl FnOnce() -> R) -> R {
    struct G<F: FnOnce() -> R, R>(Option<F>, *mut Option<R>);
    impl<F: FnOnce() -> R, R> Drop for G<F, R> {
        fn drop(&mut self) {
            debug_assert!(std::thread::panicking());
            let r = (self.0.take().unwrap())();
            unsafe { *self.1 = Some(r) };
        }
    }
    let mut out: Option<R> = None;
    let outp: *mut Option<R> = &mut out;
    let r = std::panic::catch_unwind(std::panic::AssertUnwindSafe(|| {
        let _g = G(Some(f), outp);
        arena::suspend(|| std::panic::resume_unwind(Box::new("vrt: context panic")));
    }));
    assert!(r.is_err());
    arena::suspend(|| drop(r));
    out.expect("the destructor that carries the operation did not run")
}
