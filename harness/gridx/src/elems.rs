//! Element and header classes for the constructor / fault / uninit grids.
use vrt::track::{self, Tracked};

/// An element class: `make(i)` builds the i-th input element; `key` is its identity in the drop log.
pub trait Elem: Sized + 'static {
    const NAME: &'static str;
    const TAG: u8;
    /// arena blocks owned by one element
    const INNER_BLOCKS: usize = 0;
    fn make(i: u32) -> Self;
    /// (intact, identity, ordinal it was made from)
    fn look(&self) -> (bool, u32, u32);
}

pub type ET = Tracked<6>;
impl Elem for ET {
    const NAME: &'static str = "tracked16a8";
    const TAG: u8 = 6;
    fn make(i: u32) -> Self {
        Tracked::new(i)
    }
    fn look(&self) -> (bool, u32, u32) {
        let p = self.peek();
        (p.intact(), p.id, p.val)
    }
}

/// tracked + inner heap block: a double destructor is also a double free
pub struct EB {
    pub t: Tracked<7>,
    pub b: Box<u32>,
}
impl Elem for EB {
    const NAME: &'static str = "tracked+box";
    const TAG: u8 = 7;
    const INNER_BLOCKS: usize = 1;
    fn make(i: u32) -> Self {
        EB { t: Tracked::new(i), b: Box::new(i ^ 0x5a5a) }
    }
    fn look(&self) -> (bool, u32, u32) {
        let p = self.t.peek();
        (p.intact() && *self.b == p.val ^ 0x5a5a, p.id, p.val)
    }
}

/// one byte; identity = ordinal (ordinals < 200)
pub struct E1(pub u8);
impl Elem for E1 {
    const NAME: &'static str = "byte";
    const TAG: u8 = 8;
    fn make(i: u32) -> Self {
        E1(i as u8 + 1)
    }
    fn look(&self) -> (bool, u32, u32) {
        (self.0 != 0 && self.0 != 0xA5 && self.0 != 0xDD, self.0 as u32, (self.0 as u32).wrapping_sub(1))
    }
}
impl Drop for E1 {
    fn drop(&mut self) {
        track::log_drop(8, self.0 as u32);
    }
}
/// two bytes, alignment 2 (padding after odd-sized headers)
pub struct E2(pub u16);
impl Elem for E2 {
    const NAME: &'static str = "u16";
    const TAG: u8 = 9;
    fn make(i: u32) -> Self {
        assert!(i < 0x4000);
        E2(0x4000 | i as u16)
    }
    fn look(&self) -> (bool, u32, u32) {
        (self.0 & 0xc000 == 0x4000, self.0 as u32, (self.0 & 0x3fff) as u32)
    }
}
impl Drop for E2 {
    fn drop(&mut self) {
        track::log_drop(9, self.0 as u32);
    }
}
#[repr(align(16))]
pub struct E16(pub Tracked<10>);
impl Elem for E16 {
    const NAME: &'static str = "tracked-align16";
    const TAG: u8 = 10;
    fn make(i: u32) -> Self {
        E16(Tracked::new(i))
    }
    fn look(&self) -> (bool, u32, u32) {
        let p = self.0.peek();
        (p.intact(), p.id, p.val)
    }
}
/// zero-sized with a destructor
pub struct EZ;
impl Elem for EZ {
    const NAME: &'static str = "zst";
    const TAG: u8 = 11;
    fn make(_: u32) -> Self {
        EZ
    }
    fn look(&self) -> (bool, u32, u32) {
        (true, 0, 0)
    }
}
impl Drop for EZ {
    fn drop(&mut self) {
        track::log_drop(11, 0);
    }
}

/// header classes
pub trait Hdr: Sized + 'static {
    const NAME: &'static str;
    const TAG: u8;
    fn make() -> Self;
    /// (intact, identity); identity 0 = untracked
    fn look(&self) -> (bool, u32);
}
impl Hdr for () {
    const NAME: &'static str = "unit";
    const TAG: u8 = 0;
    fn make() {}
    fn look(&self) -> (bool, u32) {
        (true, 0)
    }
}
impl Hdr for u8 {
    const NAME: &'static str = "u8";
    const TAG: u8 = 0;
    fn make() -> u8 {
        0x7e
    }
    fn look(&self) -> (bool, u32) {
        (*self == 0x7e, 0)
    }
}
impl Hdr for (u32, u8) {
    const NAME: &'static str = "(u32,u8)";
    const TAG: u8 = 0;
    fn make() -> Self {
        (0xfeed_f00d, 0x11)
    }
    fn look(&self) -> (bool, u32) {
        (*self == (0xfeed_f00d, 0x11), 0)
    }
}
pub type HT = Tracked<12>;
impl Hdr for HT {
    const NAME: &'static str = "tracked";
    const TAG: u8 = 12;
    fn make() -> Self {
        Tracked::new(777)
    }
    fn look(&self) -> (bool, u32) {
        let p = self.peek();
        (p.intact() && p.val == 777, p.id)
    }
}
#[repr(align(32))]
pub struct H32(pub Tracked<13>);
impl Hdr for H32 {
    const NAME: &'static str = "tracked-align32";
    const TAG: u8 = 13;
    fn make() -> Self {
        H32(Tracked::new(888))
    }
    fn look(&self) -> (bool, u32) {
        let p = self.0.peek();
        (p.intact() && p.val == 888, p.id)
    }
}

/// Iterator whose `size_hint` is dictated by a regime and which can panic or lie on demand.
#[derive(Clone, Copy, Debug, PartialEq, Eq)]
pub enum Regime {
    Exact,
    LowerLtUpper,
    UnknownUpper,
    LowerZero,
}
pub struct Script<T> {
    pub items: std::collections::VecDeque<T>,
    pub regime: Regime,
    /// reported length override (lying iterators); None = truthful
    pub claim: Option<usize>,
    /// successive answers of len()/size_hint() (hints that change between calls); empty = claim / truth
    pub claims: Vec<usize>,
    pub hint_calls: std::cell::Cell<usize>,
    /// callbacks so far (next / len / size_hint), shared with the harness
    pub calls: std::rc::Rc<std::cell::Cell<usize>>,
    /// panic at the k-th callback, 0 = never
    pub panic_at: usize,
}
impl<T> Script<T> {
    pub fn new(items: Vec<T>, regime: Regime) -> Self {
        Script { items: items.into(), regime, claim: None, claims: vec![], hint_calls: Default::default(), calls: Default::default(), panic_at: 0 }
    }
    fn tick(&self) {
        let n = self.calls.get() + 1;
        self.calls.set(n);
        if self.panic_at == n {
            vrt::arena::suspend(|| panic!("vrt: armed iterator panic at callback {}", n));
        }
    }
    fn reported(&self) -> usize {
        let k = self.hint_calls.get();
        self.hint_calls.set(k + 1);
        if !self.claims.is_empty() {
            return self.claims[k.min(self.claims.len() - 1)];
        }
        self.claim.unwrap_or(self.items.len())
    }
}
impl<T> Iterator for Script<T> {
    type Item = T;
    fn next(&mut self) -> Option<T> {
        self.tick();
        self.items.pop_front()
    }
    fn size_hint(&self) -> (usize, Option<usize>) {
        self.tick();
        let n = self.reported();
        match self.regime {
            Regime::Exact => (n, Some(n)),
            Regime::LowerLtUpper => (n / 2, Some(n + 3)),
            Regime::UnknownUpper => (n, None),
            Regime::LowerZero => (0, None),
        }
    }
}
impl<T> ExactSizeIterator for Script<T> {
    fn len(&self) -> usize {
        self.tick();
        self.reported()
    }
}

/// a big sized value (N bytes of padding) with a tracked destructor
pub struct EBig<const N: usize> {
    pub t: Tracked<14>,
    pub pad: [u8; N],
}
impl<const N: usize> Elem for EBig<N> {
    const NAME: &'static str = "tracked+padding";
    const TAG: u8 = 14;
    fn make(i: u32) -> Self {
        EBig { t: Tracked::new(i), pad: [0x5a; N] }
    }
    fn look(&self) -> (bool, u32, u32) {
        let p = self.t.peek();
        (p.intact() && self.pad[0] == 0x5a && self.pad[N - 1] == 0x5a && self.pad[N / 2] == 0x5a, p.id, p.val)
    }
}
