fn main(){}
