//! gridx — exhaustive enumeration of finite input / shape / fault grids on the real crate.
mod c03z;
mod c05;
mod c06;
mod c07;
mod c07r;
mod c10;
mod c11;
mod c12;
mod c14;
mod c15;
mod c16;
#[cfg(feature = "cfg_default")]
mod c17;
mod elems;
mod grid;
mod shapes;

use vrt::json::J;

#[global_allocator]
static GLOBAL: vrt::VAlloc = vrt::VAlloc;

pub fn arg(args: &[String], name: &str) -> Option<String> {
    args.iter().position(|a| a == name).and_then(|i| args.get(i + 1).cloned())
}

fn main() {
    let args: Vec<String> = std::env::args().collect();
    if std::env::var("VRT_LOUD").is_err() {
        vrt::quiet_panics();
    }
    vrt::rmwlog::install();
    vrt::arena::init_thread(8 << 20, 8192, 65536);
    if let Some(c) = arg(&args, "--child") {
        match c.as_str() {
            "c05ovf" => c05::child_overflow(&args),
            "c07alloc" => c07::child_allocfail(&args),
            "c16" => c16::child(&args),
            _ => panic!("unknown child"),
        }
        return;
    }
    let part = arg(&args, "--part").expect("--part");
    let tier = arg(&args, "--tier").unwrap_or("quick".into());
    let only = arg(&args, "--only");
    if let Some(c) = arg(&args, "--crash-file") {
        vrt::crash::install(&c);
        vrt::crash::start_watchdog(20);
    }
    let parts = std::panic::catch_unwind(std::panic::AssertUnwindSafe(|| run_part(&part, &tier, only.as_deref())));
    let parts = match parts {
        Ok(p) => p,
        Err(e) => {
            // a panic of the harness itself (outside every catch): contents it relied on were damaged
            let m = e.downcast_ref::<String>().cloned().or_else(|| e.downcast_ref::<&str>().map(|s| s.to_string())).unwrap_or_default();
            vrt::crash::report_and_exit(&format!("engine panic: {}", m.lines().next().unwrap_or("")));
        }
    };
    let j = J::A(parts.iter().map(|g| g.to_json()).collect());
    match arg(&args, "--out") {
        Some(f) => std::fs::write(f, j.dump()).unwrap(),
        None => println!("{}", j.dump()),
    }
}

fn run_part(part: &str, tier: &str, only: Option<&str>) -> Vec<grid::Grid> {
    let tier = tier.to_string();
    let parts: Vec<grid::Grid> = match part {
        "c05" => c05::run(&tier, only),
        "c03z" => c03z::run(&tier),
        "c06" => c06::run(&tier),
        "c07" => c07::run(&tier),
        "c15" => c15::run(&tier),
        "c11" => c11::run(&tier),
        "c10" => c10::run(&tier),
        "c12" => c12::run(&tier),
        "c16" => c16::run(&tier),
        #[cfg(feature = "cfg_default")]
        "c17" => c17::run(&tier),
        "c14" => c14::run(&tier, std::env::var("VERIF_SEED").ok().and_then(|s| s.parse().ok()).unwrap_or(0)),
        _ => {
            eprintln!("gridx: part {} does not exist in this build configuration", part);
            std::process::exit(2)
        }
    };
    parts
}
