//! C14: comparison, ordering, hashing and formatting see through the pointer.
use crate::grid::Grid;
use std::cmp::Ordering;
use std::collections::{BTreeMap, HashMap};
use std::fmt::Debug;
use std::hash::{Hash, Hasher};
use triomphe::{Arc, ArcBorrow, ArcUnion, HeaderSlice, HeaderWithLength, OffsetArc, ThinArc};

#[derive(Clone, Copy, PartialEq, Eq, PartialOrd, Ord, Hash, Debug)]
pub struct L(pub u8);
impl std::fmt::Display for L {
    fn fmt(&self, f: &mut std::fmt::Formatter<'_>) -> std::fmt::Result {
        write!(f, "<{}>", self.0 as char)
    }
}
/// equality only (no order, no hash)
#[derive(Clone, Copy, PartialEq, Debug)]
pub struct R(pub u8);

#[derive(Default)]
struct Rec(Vec<u8>);
impl Hasher for Rec {
    fn finish(&self) -> u64 {
        0
    }
    fn write(&mut self, b: &[u8]) {
        self.0.extend_from_slice(b);
        self.0.push(0xfe);
    }
}
fn hrec<T: Hash + ?Sized>(x: &T) -> Vec<u8> {
    let mut r = Rec::default();
    x.hash(&mut r);
    r.0
}

/// Result of every operator on an ordered pair.
#[derive(PartialEq, Debug, Clone, Default)]
pub struct Res {
    eq: Option<bool>,
    ne: Option<bool>,
    lt: Option<bool>,
    le: Option<bool>,
    gt: Option<bool>,
    ge: Option<bool>,
    pc: Option<Option<Ordering>>,
    c: Option<Ordering>,
    ha: Option<Vec<u8>>,
    hb: Option<Vec<u8>>,
    dbg: Option<String>,
    disp: Option<String>,
}
pub fn r_eq<X: PartialEq + ?Sized>(a: &X, b: &X, r: &mut Res) {
    r.eq = Some(a == b);
    r.ne = Some(a != b);
}
pub fn r_pord<X: PartialOrd + ?Sized>(a: &X, b: &X, r: &mut Res) {
    r.lt = Some(a < b);
    r.le = Some(a <= b);
    r.gt = Some(a > b);
    r.ge = Some(a >= b);
    r.pc = Some(a.partial_cmp(b));
}
pub fn r_ord<X: Ord + ?Sized>(a: &X, b: &X, r: &mut Res) {
    r.c = Some(a.cmp(b));
}
pub fn r_hash<X: Hash + ?Sized>(a: &X, b: &X, r: &mut Res) {
    r.ha = Some(hrec(a));
    r.hb = Some(hrec(b));
}
pub fn r_dbg<X: Debug + ?Sized>(a: &X, r: &mut Res) {
    // the caller's format spec must reach the value: alternate, width/precision, sign, hex
    r.dbg = Some(format!("{:?} | {:#?} | {:12.3?} | {:+?} | {:#x?} | {:<6?}", a, a, a, a, a, a));
}

/// internal consistency of one pair's results (oracle iii); `same_alloc_nan`: the NaN licence applies
fn coherence(g: &mut Grid, case: &str, r: &Res, licence: bool) {
    let kind = case.split(' ').next().unwrap_or("").to_string();
    let kind = if case.contains("recorded length differs") { format!("{}+inconsistent-length", kind) } else { kind };
    if let (Some(eq), Some(ne)) = (r.eq, r.ne) {
        if eq == ne {
            g.fail(&format!("eq-ne-incoherent:{}", kind), case, format!("== is {} and != is {}", eq, ne));
        }
    }
    if let Some(pc) = r.pc {
        let want = (pc == Some(Ordering::Less), matches!(pc, Some(Ordering::Less | Ordering::Equal)), pc == Some(Ordering::Greater), matches!(pc, Some(Ordering::Greater | Ordering::Equal)));
        let got = (r.lt.unwrap(), r.le.unwrap(), r.gt.unwrap(), r.ge.unwrap());
        if want != got {
            g.fail(&format!("relational-vs-partial-cmp:{}", kind), case, format!("partial_cmp = {:?} but (<, <=, >, >=) = {:?}", pc, got));
        }
        if let Some(c) = r.c {
            if pc != Some(c) {
                g.fail(&format!("cmp-vs-partial-cmp:{}", kind), case, format!("cmp = {:?}, partial_cmp = {:?}", c, pc));
            }
        }
        if let Some(eq) = r.eq {
            if eq != (pc == Some(Ordering::Equal)) && !licence {
                g.fail(&format!("eq-vs-ordering:{}", kind), case, format!("== is {} but partial_cmp is {:?}", eq, pc));
            }
        }
    }
    if let (Some(true), Some(ha), Some(hb)) = (r.eq, &r.ha, &r.hb) {
        if ha != hb {
            g.fail(&format!("eq-but-hash-differs:{}", kind), case, "equal values hash differently".into());
        }
    }
}

/// handle result vs value result (oracle i); same allocation may report == regardless
fn see_through(g: &mut Grid, kind: &str, case: &str, h: &Res, v: &Res, same_alloc: bool, reflexive: bool) {
    let mut hh = h.clone();
    if same_alloc {
        // the licence: same allocation compares equal without consulting the value; it can only
        // change the answer for values that are not equal to themselves
        if hh.eq == Some(true) && v.eq == Some(false) {
            if reflexive {
                g.fail("licence-misused", case, format!("{}: same-allocation handles compare == but the (reflexive) value compares !=", kind));
            }
            hh.eq = v.eq;
        }
        if hh.ne == Some(false) && v.ne == Some(true) {
            if reflexive {
                g.fail("licence-misused", case, format!("{}: same-allocation handles compare !(!=) but the value is != itself", kind));
            }
            hh.ne = v.ne;
        }
    }
    macro_rules! f {
        ($field:ident, $code:expr) => {
            if hh.$field.is_some() && v.$field.is_some() && hh.$field != v.$field {
                g.fail(&format!("{}:{}", $code, kind.split(' ').next().unwrap_or(kind)), case, format!("{}: {} through the handle = {:?}, on the values = {:?}", kind, stringify!($field), hh.$field, v.$field));
            }
        };
    }
    f!(eq, "see-through-eq");
    f!(ne, "see-through-ne");
    f!(lt, "see-through-ord");
    f!(le, "see-through-ord");
    f!(gt, "see-through-ord");
    f!(ge, "see-through-ord");
    f!(pc, "see-through-partial-cmp");
    f!(c, "see-through-cmp");
    f!(ha, "see-through-hash");
    f!(dbg, "see-through-debug");
    f!(disp, "see-through-display");
}

fn slices() -> Vec<Vec<L>> {
    let mut all = vec![vec![]];
    let mut fr = vec![vec![]];
    for _ in 0..3 {
        let mut nf = vec![];
        for s in &fr {
            for c in [b'a', b'b', b'c'] {
                let mut t: Vec<L> = s.clone();
                t.push(L(c));
                nf.push(t);
            }
        }
        all.extend(nf.iter().cloned());
        fr = nf;
    }
    all
}

// ------------------------------------------------------------------ scalar payloads through every sized handle kind
fn scalar<T: Clone + PartialEq + Debug + 'static>(g: &mut Grid, tname: &str, dom: &[T], reflexive: bool, full: impl Fn(&T, &T, &mut Res), arcfull: impl Fn(&Arc<T>, &Arc<T>, &mut Res)) {
    for (i, x) in dom.iter().enumerate() {
        for (j, y) in dom.iter().enumerate() {
            for same_alloc in [false, true] {
                if same_alloc && i != j {
                    continue;
                }
                let a = Arc::new(x.clone());
                let b = if same_alloc { a.clone() } else { Arc::new(y.clone()) };
                let case = format!("{} {:?} vs {:?} {}", tname, x, y, if same_alloc { "same allocation" } else { "distinct allocations" });
                g.case(format!("scalar|{}|{}|{}|{}", tname, i, j, same_alloc), || case.clone());
                let mut v = Res::default();
                full(x, y, &mut v);
                r_eq(x, y, &mut v);
                r_dbg(x, &mut v);
                coherence(g, &format!("value {}", case), &v, false);
                // Arc
                let mut h = Res::default();
                arcfull(&a, &b, &mut h);
                r_eq(&a, &b, &mut h);
                r_dbg(&a, &mut h);
                see_through(g, "Arc<T>", &case, &h, &v, same_alloc, reflexive);
                coherence(g, &format!("Arc<T> {}", case), &h, same_alloc && !reflexive);
                // OffsetArc
                let (oa, ob) = (Arc::into_raw_offset(a.clone()), Arc::into_raw_offset(b.clone()));
                let mut h = Res::default();
                r_eq(&oa, &ob, &mut h);
                r_dbg(&oa, &mut h);
                see_through(g, "OffsetArc<T>", &case, &h, &v, same_alloc, reflexive);
                coherence(g, &format!("OffsetArc<T> {}", case), &h, same_alloc && !reflexive);
                // ArcBorrow
                let (ba, bb) = (a.borrow_arc(), b.borrow_arc());
                let mut h = Res::default();
                r_eq(&ba, &bb, &mut h);
                r_dbg(&ba, &mut h);
                see_through(g, "ArcBorrow<T>", &case, &h, &v, same_alloc, reflexive);
                // ArcUnion, both variants
                let (ua, ub): (ArcUnion<T, u8>, ArcUnion<T, u8>) = (ArcUnion::from_first(a.clone()), ArcUnion::from_first(b.clone()));
                let mut h = Res::default();
                r_eq(&ua, &ub, &mut h);
                let mut vv = Res { eq: v.eq, ne: v.ne, ..Default::default() };
                see_through(g, "ArcUnion<T,_> (first)", &case, &h, &vv, same_alloc, reflexive);
                let (ua2, ub2): (ArcUnion<u8, T>, ArcUnion<u8, T>) = (ArcUnion::from_second(a.clone()), ArcUnion::from_second(b.clone()));
                let mut h = Res::default();
                r_eq(&ua2, &ub2, &mut h);
                vv.dbg = None;
                see_through(g, "ArcUnion<_,T> (second)", &case, &h, &vv, same_alloc, reflexive);
                // one allocation held under both variants of an ArcUnion<T, T>: never equal, whatever the value
                let (uf, us): (ArcUnion<T, T>, ArcUnion<T, T>) = (ArcUnion::from_first(a.clone()), ArcUnion::from_second(a.clone()));
                if uf == us || !(uf != us) {
                    g.fail("union-variants-equal", &case, format!("ArcUnion<T,T>: First and Second over the same allocation compare == {} / != {}", uf == us, uf != us));
                }
                // union formatting: a function of (variant, value's Debug), independent of the address
                let c = Arc::new(x.clone());
                let uc: ArcUnion<T, u8> = ArcUnion::from_first(c);
                if format!("{:?}", ua) != format!("{:?}", uc) {
                    g.fail("union-debug-address", &case, format!("ArcUnion Debug differs between two allocations of the same value: {:?} vs {:?}", format!("{:?}", ua), format!("{:?}", uc)));
                }
            }
        }
    }
}

// ------------------------------------------------------------------ header + slice payloads
type Fat = Arc<HeaderSlice<L, [L]>>;
type FatLen = Arc<HeaderSlice<HeaderWithLength<L>, [L]>>;

fn full<X: Ord + Hash + Debug + ?Sized>(a: &X, b: &X) -> Res {
    let mut r = Res::default();
    r_eq(a, b, &mut r);
    r_pord(a, b, &mut r);
    r_ord(a, b, &mut r);
    r_hash(a, b, &mut r);
    r_dbg(a, &mut r);
    r
}
fn partial<X: PartialOrd + Debug + ?Sized>(a: &X, b: &X) -> Res {
    let mut r = Res::default();
    r_eq(a, b, &mut r);
    r_pord(a, b, &mut r);
    r_dbg(a, &mut r);
    r
}

fn tuple_order(g: &mut Grid, kind: &str, case: &str, h: &Res, t: &Res) {
    // oracle ii: ordering as the tuple (header, slice). Where the tuples tie and the values still
    // differ (only possible through an inconsistent recorded length) any coherent answer is accepted.
    if t.pc == Some(Some(Ordering::Equal)) && h.eq == Some(false) {
        return;
    }
    for (name, a, b) in [("<", h.lt, t.lt), ("<=", h.le, t.le), (">", h.gt, t.gt), (">=", h.ge, t.ge)] {
        if a != b {
            g.fail("tuple-order", case, format!("{}: {} is {:?}, (header, slice) tuples give {:?}", kind, name, a, b));
        }
    }
    if h.pc != t.pc || (h.c.is_some() && h.c != t.c) {
        g.fail("tuple-order", case, format!("{}: partial_cmp/cmp {:?}/{:?}, tuples give {:?}/{:?}", kind, h.pc, h.c, t.pc, t.c));
    }
}

fn header_slices(g: &mut Grid, thorough: bool) {
    let sl = slices();
    let heads = [L(b'a'), L(b'b'), L(b'c')];
    let vals: Vec<(L, &Vec<L>)> = heads.iter().flat_map(|h| sl.iter().map(move |s| (*h, s))).collect();
    // plain header
    let fat: Vec<Fat> = vals.iter().map(|(h, s)| Arc::from_header_and_slice(*h, s)).collect();
    let thin: Vec<ThinArc<L, L>> = vals.iter().map(|(h, s)| ThinArc::from_header_and_slice(*h, s)).collect();
    for i in 0..vals.len() {
        for j in 0..vals.len() {
            let case = format!("({:?},{:?}) vs ({:?},{:?})", vals[i].0, vals[i].1, vals[j].0, vals[j].1);
            g.case(format!("hs|{}|{}", i, j), || case.clone());
            let t = full(&(&vals[i].0, &vals[i].1[..]), &(&vals[j].0, &vals[j].1[..]));
            // fat Arc, distinct allocations
            let v = full(&*fat[i], &*fat[j]);
            let h = full(&fat[i], &fat[j]);
            see_through(g, "Arc<HeaderSlice<H,[T]>>", &case, &h, &v, false, true);
            coherence(g, &format!("Arc<HeaderSlice> {}", case), &h, false);
            coherence(g, &format!("HeaderSlice value {}", case), &v, false);
            tuple_order(g, "Arc<HeaderSlice<H,[T]>>", &case, &h, &t);
            if h.eq != t.eq {
                g.fail("tuple-eq", &case, format!("Arc<HeaderSlice> == is {:?}, tuples give {:?}", h.eq, t.eq));
            }
            // thin
            let vfat = v;
            let v = full(&*thin[i], &*thin[j]);
            let h = full(&thin[i], &thin[j]);
            see_through(g, "ThinArc<H,T>", &case, &h, &v, false, true);
            coherence(g, &format!("ThinArc {}", case), &h, false);
            tuple_order(g, "ThinArc<H,T>", &case, &h, &t);
            if h.eq != t.eq {
                g.fail("tuple-eq", &case, format!("ThinArc == is {:?}, tuples give {:?}", h.eq, t.eq));
            }
            if i == j {
                // same allocation
                let c = fat[i].clone();
                let h = full(&fat[i], &c);
                see_through(g, "Arc<HeaderSlice<H,[T]>> (same allocation)", &case, &h, &vfat, true, true);
                let c = thin[i].clone();
                let h = full(&thin[i], &c);
                see_through(g, "ThinArc (same allocation)", &case, &h, &v, true, true);
                // protected view of the thin value
                let p = Arc::protected_from_thin(thin[i].clone());
                let q = Arc::protected_from_thin(thin[j].clone());
                let h = full(&p, &q);
                let v = full(&*p, &*q);
                see_through(g, "Arc<HeaderSliceWithLengthProtected>", &case, &h, &v, true, true);
                coherence(g, &format!("Arc<Protected> {}", case), &h, false);
            }
        }
    }
    // header with recorded length: equal and unequal to the slice length (publicly constructible)
    let step = if thorough { 1 } else { 3 };
    let mut lv: Vec<(L, &Vec<L>, usize)> = vec![];
    for (k, (h, s)) in vals.iter().enumerate() {
        lv.push((*h, s, s.len()));
        if k % step == 0 {
            lv.push((*h, s, s.len() + 1));
            lv.push((*h, s, if s.is_empty() { 7 } else { 0 }));
        }
        if k % (3 * step) == 0 {
            // recorded lengths of unusual magnitude (a sentinel, a sign bit): still publicly constructible
            lv.push((*h, s, usize::MAX));
            lv.push((*h, s, 1usize << 63));
            lv.push((*h, s, isize::MAX as usize));
        }
    }
    let fl: Vec<FatLen> = lv.iter().map(|(h, s, n)| Arc::from_header_and_slice(HeaderWithLength::new(*h, *n), s)).collect();
    for i in 0..lv.len() {
        for j in 0..lv.len() {
            let case = format!("HeaderWithLength({:?}, recorded {}) {:?} vs ({:?}, recorded {}) {:?}", lv[i].0, lv[i].2, lv[i].1, lv[j].0, lv[j].2, lv[j].1);
            let consistent = lv[i].2 == lv[i].1.len() && lv[j].2 == lv[j].1.len();
            g.case(format!("hwl|{}|{}", i, j), || case.clone());
            let v = full(&*fl[i], &*fl[j]);
            let h = full(&fl[i], &fl[j]);
            see_through(g, "Arc<HeaderSlice<HeaderWithLength<H>,[T]>>", &case, &h, &v, false, true);
            let t = full(&(&lv[i].0, &lv[i].1[..]), &(&lv[j].0, &lv[j].1[..]));
            tuple_order(g, "Arc<HeaderSlice<HeaderWithLength<H>,[T]>>", &case, &h, &t);
            let tag = if consistent { "recorded lengths true" } else { "recorded length differs from the slice length" };
            coherence(g, &format!("Arc<HeaderSlice<HeaderWithLength<H>,[T]>> ({}) {}", tag, case), &h, false);
        }
    }
    // the bare sized header-slice type
    type Bare = HeaderSlice<HeaderWithLength<L>, [L; 2]>;
    let bare: Vec<Bare> = heads.iter().flat_map(|h| [2usize, 5, isize::MAX as usize, 1usize << 63, usize::MAX].into_iter().flat_map(move |n| [[L(b'a'), L(b'b')], [L(b'b'), L(b'a')]].into_iter().map(move |s| HeaderSlice { header: HeaderWithLength::new(*h, n), slice: s }))).collect();
    for a in &bare {
        for b in &bare {
            let case = format!("bare {:?} vs {:?}", a, b);
            g.case(format!("bare|{:?}|{:?}", a, b), || case.clone());
            let v = full(a, b);
            let tag = if a.header.length == 2 && b.header.length == 2 { "recorded lengths true" } else { "recorded length differs from the slice length" };
            coherence(g, &format!("HeaderSlice<HeaderWithLength<H>,[T;2]> ({}) {}", tag, case), &v, false);
            let h = full(&Arc::new(*a), &Arc::new(*b));
            see_through(g, "Arc<HeaderSlice<HeaderWithLength<H>,[T;2]>>", &case, &h, &v, false, true);
        }
    }
}

fn floats(g: &mut Grid) {
    let dom = [-0.0f64, 0.0, 1.0, f64::NAN];
    scalar::<f64>(g, "f64", &dom, false, |a, b, r| r_pord(a, b, r), |a, b, r| r_pord(a, b, r));
    // float header + float slice, thin and fat
    let sl: Vec<Vec<f64>> = vec![vec![], vec![0.0], vec![f64::NAN], vec![0.0, 1.0], vec![0.0, f64::NAN], vec![-0.0, 1.0]];
    for h1 in dom {
        for s1 in &sl {
            for h2 in dom {
                for s2 in &sl {
                    let case = format!("float ({:?},{:?}) vs ({:?},{:?})", h1, s1, h2, s2);
                    g.case(format!("fhs|{:?}|{:?}|{:?}|{:?}", h1.to_bits(), s1.len(), h2.to_bits(), s2.len()), || case.clone());
                    let t = partial(&(&h1, &s1[..]), &(&h2, &s2[..]));
                    let (a, b) = (Arc::from_header_and_slice(h1, s1), Arc::from_header_and_slice(h2, s2));
                    let h = partial(&a, &b);
                    let v = partial(&*a, &*b);
                    see_through(g, "Arc<HeaderSlice<f64,[f64]>>", &case, &h, &v, false, false);
                    tuple_order(g, "Arc<HeaderSlice<f64,[f64]>>", &case, &h, &t);
                    coherence(g, &format!("Arc<HeaderSlice<f64,[f64]>> {}", case), &h, false);
                    let (a, b) = (ThinArc::from_header_and_slice(h1, s1), ThinArc::from_header_and_slice(h2, s2));
                    let h = partial(&a, &b);
                    let v = partial(&*a, &*b);
                    see_through(g, "ThinArc<f64,f64>", &case, &h, &v, false, false);
                    tuple_order(g, "ThinArc<f64,f64>", &case, &h, &t);
                    coherence(g, &format!("ThinArc<f64,f64> {}", case), &h, false);
                    // the protected view of the very same allocations
                    let (pa, pb) = (Arc::protected_from_thin(a.clone()), Arc::protected_from_thin(b.clone()));
                    let h = partial(&pa, &pb);
                    tuple_order(g, "Arc<HeaderSliceWithLengthProtected<f64,f64>>", &case, &h, &t);
                    coherence(g, &format!("Arc<HeaderSliceWithLengthProtected<f64,f64>> {}", case), &h, false);
                    if h.eq != t.eq {
                        g.fail("tuple-eq", &case, format!("Arc<Protected> == is {:?}, tuples give {:?}", h.eq, t.eq));
                    }
                }
            }
        }
    }
}

fn maps(g: &mut Grid) {
    // oracle iv: Arc<T> stands in for T as a map key through Borrow
    let sl = slices();
    let mut hm: HashMap<Arc<[L]>, usize> = HashMap::new();
    let mut bm: BTreeMap<Arc<[L]>, usize> = BTreeMap::new();
    let mut hs: HashMap<Arc<L>, usize> = HashMap::new();
    for (i, s) in sl.iter().enumerate() {
        hm.insert(Arc::from(&s[..]), i);
        bm.insert(Arc::from(&s[..]), i);
    }
    for c in [b'a', b'b', b'c'] {
        hs.insert(Arc::new(L(c)), c as usize);
    }
    for (i, s) in sl.iter().enumerate() {
        g.case(format!("map|{}", i), || format!("HashMap/BTreeMap<Arc<[L]>,_> lookup with &[L] {:?}", s));
        if hm.get(&s[..]) != Some(&i) {
            g.fail("map-lookup", &format!("HashMap<Arc<[L]>> get({:?})", s), format!("{:?}", hm.get(&s[..])));
        }
        if bm.get(&s[..]) != Some(&i) {
            g.fail("map-lookup", &format!("BTreeMap<Arc<[L]>> get({:?})", s), format!("{:?}", bm.get(&s[..])));
        }
    }
    let order: Vec<&Arc<[L]>> = bm.keys().collect();
    let mut sorted = sl.clone();
    sorted.sort();
    if order.iter().map(|a| a.to_vec()).collect::<Vec<_>>() != sorted {
        g.fail("map-order", "BTreeMap<Arc<[L]>> iteration order", "differs from the order of the slices".into());
    }
    for c in [b'a', b'b', b'c'] {
        if hs.get(&L(c)) != Some(&(c as usize)) {
            g.fail("map-lookup", "HashMap<Arc<L>> get(&L)", format!("{:?}", hs.get(&L(c))));
        }
    }
    // Display passes through
    let a = Arc::new(L(b'q'));
    if format!("{}", a) != format!("{}", L(b'q')) || format!("{:>6}", a) != format!("{:>6}", L(b'q')) {
        g.fail("see-through-display", "Arc<L> Display", format!("{} vs {}", a, L(b'q')));
    }
}

/// labelled sampling (not part of the exhaustive claim): larger random values
fn sampled(g: &mut Grid, seed: u64, n: usize) {
    let mut s = seed.wrapping_mul(0x9E37_79B9_7F4A_7C15) | 1;
    let mut next = || {
        s ^= s << 13;
        s ^= s >> 7;
        s ^= s << 17;
        s
    };
    for k in 0..n {
        let mk = |next: &mut dyn FnMut() -> u64| -> (L, Vec<L>) {
            let len = (next() % 12) as usize;
            (L(b'a' + (next() % 5) as u8), (0..len).map(|_| L(b'a' + (next() % 5) as u8)).collect())
        };
        let (x, y) = (mk(&mut next), mk(&mut next));
        let case = format!("sampled ({:?},{:?}) vs ({:?},{:?})", x.0, x.1, y.0, y.1);
        g.case(format!("sample|{}", k), || case.clone());
        let t = full(&(&x.0, &x.1[..]), &(&y.0, &y.1[..]));
        let (a, b) = (ThinArc::from_header_and_slice(x.0, &x.1), ThinArc::from_header_and_slice(y.0, &y.1));
        let h = full(&a, &b);
        tuple_order(g, "ThinArc (sampled)", &case, &h, &t);
        coherence(g, &format!("ThinArc (sampled) {}", case), &h, false);
    }
}

// ---------------------------------------------------------------- provided trait methods
/// ordered and hashed by `key` only; `tag` tells two equal-ranking values apart
#[derive(Clone, Copy, Debug)]
struct K {
    key: u8,
    tag: u8,
}
impl PartialEq for K {
    fn eq(&self, o: &K) -> bool {
        self.key == o.key
    }
}
impl Eq for K {}
impl PartialOrd for K {
    fn partial_cmp(&self, o: &K) -> Option<Ordering> {
        Some(self.cmp(o))
    }
}
impl Ord for K {
    fn cmp(&self, o: &K) -> Ordering {
        self.key.cmp(&o.key)
    }
}
impl Hash for K {
    fn hash<H: Hasher>(&self, h: &mut H) {
        self.key.hash(h)
    }
}
/// zero-sized payloads: the value has no bytes, its trait impls still have behaviour
#[derive(Clone, Copy)]
struct Zt;
impl Debug for Zt {
    fn fmt(&self, f: &mut std::fmt::Formatter<'_>) -> std::fmt::Result {
        f.pad("Zt!")
    }
}
impl PartialEq for Zt {
    fn eq(&self, _: &Zt) -> bool {
        true
    }
}
impl Eq for Zt {}
impl PartialOrd for Zt {
    fn partial_cmp(&self, _: &Zt) -> Option<Ordering> {
        Some(Ordering::Equal)
    }
}
impl Ord for Zt {
    fn cmp(&self, _: &Zt) -> Ordering {
        Ordering::Equal
    }
}
impl Hash for Zt {
    fn hash<H: Hasher>(&self, h: &mut H) {
        h.write_u8(7)
    }
}
/// zero-sized and equal to nothing, itself included (the NaN of unit structs)
#[derive(Clone, Copy)]
struct Zn;
impl Debug for Zn {
    fn fmt(&self, f: &mut std::fmt::Formatter<'_>) -> std::fmt::Result {
        f.pad("Zn?")
    }
}
impl PartialEq for Zn {
    fn eq(&self, _: &Zn) -> bool {
        false
    }
}
impl PartialOrd for Zn {
    fn partial_cmp(&self, _: &Zn) -> Option<Ordering> {
        None
    }
}
fn zero_sized(g: &mut Grid) {
    scalar::<()>(g, "()(zero-sized)", &[()], true, |a, b, r| { r_pord(a, b, r); r_ord(a, b, r); r_hash(a, b, r) }, |a, b, r| { r_pord(a, b, r); r_ord(a, b, r); r_hash(a, b, r) });
    scalar::<Zt>(g, "Zt(zero-sized, Debug/Hash of its own)", &[Zt], true, |a, b, r| { r_pord(a, b, r); r_ord(a, b, r); r_hash(a, b, r) }, |a, b, r| { r_pord(a, b, r); r_ord(a, b, r); r_hash(a, b, r) });
    scalar::<Zn>(g, "Zn(zero-sized, equal to nothing)", &[Zn], false, |a, b, r| r_pord(a, b, r), |a, b, r| r_pord(a, b, r));
}
/// The methods that `Ord`, `Hash` (and `PartialEq`, covered above) PROVIDE — max, min, clamp,
/// hash_slice — answer through a handle what they answer on the values, including which of two
/// equal-ranking operands is returned and whether an inverted clamp range panics.
fn provided_methods(g: &mut Grid) {
    let dom: Vec<K> = (0..3u8).flat_map(|k| (0..2u8).map(move |t| K { key: k, tag: t })).collect();
    let thin = |k: &K| -> ThinArc<K, u8> { ThinArc::from_header_and_slice(*k, &[]) };
    let catch = |f: &mut dyn FnMut() -> (u8, u8)| -> Option<(u8, u8)> { std::panic::catch_unwind(std::panic::AssertUnwindSafe(f)).ok() };
    for a in &dom {
        for b in &dom {
            let case = format!("max/min of {:?} and {:?}", a, b);
            g.case(format!("provided|maxmin|{}|{}|{}|{}", a.key, a.tag, b.key, b.tag), || case.clone());
            let vmax = Ord::max(*a, *b);
            let vmin = Ord::min(*a, *b);
            let (ha, hb) = (Arc::new(*a), Arc::new(*b));
            let hmax = Ord::max(ha.clone(), hb.clone());
            let hmin = Ord::min(ha.clone(), hb.clone());
            if (hmax.key, hmax.tag) != (vmax.key, vmax.tag) || (hmin.key, hmin.tag) != (vmin.key, vmin.tag) {
                g.fail("provided-max-min:Arc", &case, format!("through Arc: max {:?} min {:?}; on the values: max {:?} min {:?}", *hmax, *hmin, vmax, vmin));
            }
            if !(Arc::ptr_eq(&hmax, &ha) || Arc::ptr_eq(&hmax, &hb)) || !(Arc::ptr_eq(&hmin, &ha) || Arc::ptr_eq(&hmin, &hb)) {
                g.fail("provided-max-min-identity:Arc", &case, "max/min returned a handle that is neither operand".into());
            }
            let (ta, tb) = (thin(a), thin(b));
            let tmax = Ord::max(ta.clone(), tb.clone());
            let tmin = Ord::min(ta.clone(), tb.clone());
            if (tmax.header.header.key, tmax.header.header.tag) != (vmax.key, vmax.tag) || (tmin.header.header.key, tmin.header.header.tag) != (vmin.key, vmin.tag) {
                g.fail("provided-max-min:ThinArc", &case, format!("through ThinArc: max {:?} min {:?}; on the values: max {:?} min {:?}", tmax.header.header, tmin.header.header, vmax, vmin));
            }
            // hash_slice
            let hv = {
                let mut h = std::collections::hash_map::DefaultHasher::new();
                Hash::hash_slice(&[*a, *b], &mut h);
                h.finish()
            };
            let hh = {
                let mut h = std::collections::hash_map::DefaultHasher::new();
                Hash::hash_slice(&[ha.clone(), hb.clone()], &mut h);
                h.finish()
            };
            if hv != hh {
                g.fail("provided-hash-slice:Arc", &case, "Hash::hash_slice over handles differs from hash_slice over the values".into());
            }
            for c in &dom {
                let case = format!("{:?}.clamp({:?}, {:?})", a, b, c);
                g.case(format!("provided|clamp|{}|{}|{}", a.key, b.key, c.key), || case.clone());
                let v = catch(&mut || {
                    let r = Ord::clamp(*a, *b, *c);
                    (r.key, r.tag)
                });
                let hc = Arc::new(*c);
                let h = catch(&mut || {
                    let r = Ord::clamp(ha.clone(), hb.clone(), hc.clone());
                    (r.key, r.tag)
                });
                if v != h {
                    g.fail("provided-clamp:Arc", &case, format!("through Arc: {:?}; on the values: {:?} (None = panicked)", h, v));
                }
                let tc = thin(c);
                let t = catch(&mut || {
                    let r = Ord::clamp(ta.clone(), tb.clone(), tc.clone());
                    (r.header.header.key, r.header.header.tag)
                });
                if v != t {
                    g.fail("provided-clamp:ThinArc", &case, format!("through ThinArc: {:?}; on the values: {:?} (None = panicked)", t, v));
                }
            }
        }
    }
}

pub fn run(tier: &str, seed: u64) -> Vec<Grid> {
    let thorough = tier == "thorough";
    let mut g = Grid::new("c14.values", "all ordered pairs of the value domain (headers x slices of length <=3 over 3 letters; recorded length true / +1 / 0; scalars; floats incl. NaN and -0.0; equality-only payload) x handle kind x same/distinct allocation; every operator the handle implements");
    let letters = [L(b'a'), L(b'b'), L(b'c')];
    scalar::<L>(
        &mut g,
        "L",
        &letters,
        true,
        |a, b, r| {
            r_pord(a, b, r);
            r_ord(a, b, r);
            r_hash(a, b, r)
        },
        |a, b, r| {
            r_pord(a, b, r);
            r_ord(a, b, r);
            r_hash(a, b, r)
        },
    );
    scalar::<R>(&mut g, "R(eq-only)", &[R(1), R(2)], true, |_, _, _| {}, |_, _, _| {});
    floats(&mut g);
    header_slices(&mut g, thorough);
    maps(&mut g);
    provided_methods(&mut g);
    zero_sized(&mut g);
    let mut s = Grid::new("c14.sampled", "SAMPLING (labelled, not exhaustive): VERIF_SEED-driven larger header/slice values through ThinArc; excluded from the exhaustive claim");
    s.exhaustive = false;
    sampled(&mut s, seed, if thorough { 20000 } else { 2000 });
    vec![g, s]
}
