//! Payload shapes for the size/alignment matrix (DESIGN §C05).
//! `Copy` shapes carry bytes that are a function of an id; `D*` shapes count destructor runs per type.
use std::sync::atomic::{AtomicUsize, Ordering};

pub trait Shape: Sized + Copy + 'static {
    const NAME: &'static str;
    fn make(id: u32) -> Self;
    fn ok(&self, id: u32) -> bool;
}

fn byte(id: u32, i: usize) -> u8 {
    (id as usize).wrapping_mul(31).wrapping_add(i.wrapping_mul(7)).wrapping_add(0x5b) as u8
}

macro_rules! cshape {
    ($name:ident, $align:literal, $n:literal) => {
        #[derive(Clone, Copy)]
        #[repr(C, align($align))]
        pub struct $name(pub [u8; $n]);
        impl Shape for $name {
            const NAME: &'static str = stringify!($name);
            fn make(id: u32) -> Self {
                let mut b = [0u8; $n];
                for (i, x) in b.iter_mut().enumerate() {
                    *x = byte(id, i);
                }
                $name(b)
            }
            fn ok(&self, id: u32) -> bool {
                self.0.iter().enumerate().all(|(i, x)| *x == byte(id, i))
            }
        }
    };
}
// (size, align) points: every boundary the layout code has (size 0, <8, =8, >8; align <8, =8, >8)
cshape!(S0a1, 1, 0);
cshape!(S1a1, 1, 1);
cshape!(S3a1, 1, 3);
cshape!(S5a1, 1, 5);
cshape!(S7a1, 1, 7);
cshape!(S9a1, 1, 9);
cshape!(S64a1, 1, 64);
cshape!(S2a2, 2, 2);
cshape!(S6a2, 2, 6);
cshape!(S4a4, 4, 4);
cshape!(S12a4, 4, 12);
cshape!(S8a8, 8, 8);
cshape!(S24a8, 8, 24);
cshape!(S16a16, 16, 16);
cshape!(S48a16, 16, 48);
cshape!(S32a32, 32, 32);
cshape!(S64a64, 64, 64);
// payloads larger than any small-object fast path could assume (sizes not multiples of 8)
cshape!(S300a1, 1, 300);
cshape!(S258a2, 2, 258);
cshape!(S260a4, 4, 260);
cshape!(S1000a8, 8, 1000);
cshape!(S320a64, 64, 320);
cshape!(S0a2, 2, 0);
cshape!(S0a8, 8, 0);
cshape!(S0a16, 16, 0);
cshape!(S0a64, 64, 0);

/// Invoke `$f::<A, B> $args` for every ordered pair of the given type list (`$args` is a parenthesised list).
#[macro_export]
macro_rules! for_pairs {
    ($f:ident, $args:tt; [$($a:ty),*]) => { $crate::for_pairs!(@outer $f, $args; [$($a),*]; [$($a),*]) };
    (@outer $f:ident, $args:tt; [$($a:ty),*]; $bs:tt) => { $( $crate::for_pairs!(@inner $f, $args; $a; $bs); )* };
    (@inner $f:ident, $args:tt; $a:ty; [$($b:ty),*]) => { $( $f::<$a, $b> $args; )* };
}
#[macro_export]
macro_rules! for_each_shape {
    ($f:ident, $args:tt; [$($a:ty),*]) => { $( $f::<$a> $args; )* };
}

/// Drop-counting shapes (not Copy): per-type destructor counters, also for ZSTs.
pub trait DShape: Sized + PartialEq + std::fmt::Debug + 'static {
    const NAME: &'static str;
    fn make(id: u32) -> Self;
    fn ok(&self, id: u32) -> bool;
    fn drops() -> usize;
}
macro_rules! dshape {
    ($name:ident, $ctr:ident, $align:literal, $n:literal) => {
        pub static $ctr: AtomicUsize = AtomicUsize::new(0);
        #[repr(C, align($align))]
        pub struct $name(pub [u8; $n]);
        impl DShape for $name {
            const NAME: &'static str = stringify!($name);
            fn make(id: u32) -> Self {
                let mut b = [0u8; $n];
                for (i, x) in b.iter_mut().enumerate() {
                    *x = byte(id, i);
                }
                $name(b)
            }
            fn ok(&self, id: u32) -> bool {
                self.0.iter().enumerate().all(|(i, x)| *x == byte(id, i))
            }
            fn drops() -> usize {
                $ctr.load(Ordering::Relaxed)
            }
        }
        impl Drop for $name {
            fn drop(&mut self) {
                $ctr.fetch_add(1, Ordering::Relaxed);
            }
        }
        impl PartialEq for $name {
            fn eq(&self, o: &Self) -> bool {
                self.0 == o.0
            }
        }
        impl Clone for $name {
            fn clone(&self) -> Self {
                $name(self.0)
            }
        }
        impl std::fmt::Debug for $name {
            fn fmt(&self, f: &mut std::fmt::Formatter<'_>) -> std::fmt::Result {
                write!(f, "{}{:?}", stringify!($name), &self.0[..self.0.len().min(2)])
            }
        }
    };
}
dshape!(D0a1, CD0A1, 1, 0);
dshape!(D1a1, CD1A1, 1, 1);
dshape!(D3a1, CD3A1, 1, 3);
dshape!(D2a2, CD2A2, 2, 2);
dshape!(D4a4, CD4A4, 4, 4);
dshape!(D8a8, CD8A8, 8, 8);
dshape!(D24a8, CD24A8, 8, 24);
dshape!(D16a16, CD16A16, 16, 16);
dshape!(D64a64, CD64A64, 64, 64);
dshape!(D0a8, CD0A8, 8, 0);
dshape!(D0a64, CD0A64, 64, 0);
