//! C05: every block fits its contents and is freed once with the layout it was requested with.
use crate::grid::Grid;
use crate::shapes::*;
use crate::{for_each_shape, for_pairs};
use std::alloc::Layout;
use std::mem::{align_of, size_of, MaybeUninit};
use triomphe::{Arc, ArcUnion, HeaderSlice, HeaderWithLength, OffsetArc, ThinArc, UniqueArc};
use vrt::arena::{self, cap, ErrKind};
use vrt::catch;

pub trait Tr {
    fn sz(&self) -> usize;
}
impl<S: Shape> Tr for S {
    fn sz(&self) -> usize {
        size_of::<S>()
    }
}

/// compiler-rules layout of `ArcInner<HeaderSlice<H,[T]>>` (repr(C) nesting), independent of the crate
fn exp_hs<H, T>(n: usize) -> Option<(Layout, usize, usize)> {
    let (inner, soff) = Layout::new::<H>().extend(Layout::array::<T>(n).ok()?).ok()?;
    let inner = inner.pad_to_align();
    let (outer, doff) = Layout::new::<usize>().extend(inner).ok()?;
    Some((outer.pad_to_align(), doff, doff + soff))
}
fn exp_sized<T>() -> (Layout, usize) {
    let (outer, doff) = Layout::new::<usize>().extend(Layout::new::<T>()).unwrap();
    (outer.pad_to_align(), doff)
}

/// One evaluation: construct inside the capture window, inspect, release, check the allocator's view.
#[allow(clippy::too_many_arguments)]
fn eval<B>(g: &mut Grid, case: &str, class: String, expect: Layout, refusal_ok: bool, construct: impl FnOnce() -> B, inspect: impl Fn(&B) -> Vec<(usize, usize, usize)>, release: impl FnOnce(B)) {
    vrt::begin_execution();
    g.begin(case);
    let b = match catch(|| cap(construct)) {
        Ok(b) => b,
        Err(m) => {
            if refusal_ok {
                g.case(format!("{}|refused", class), || format!("{} -> refused up front: {}", case, m));
            } else {
                g.case(class, || case.to_string());
                g.fail("ctor-panic", case, format!("constructor panicked: {}", m));
            }
            return;
        }
    };
    g.case(class, || format!("{} expect block {:?}", case, expect));
    let live = arena::live_blocks();
    if live.len() != 1 {
        g.fail("blocks-after-ctor", case, format!("expected exactly one live block after construction, found {:?}", live));
        std::mem::forget(b);
        return;
    }
    let (addr, size, align) = live[0];
    if size < expect.size() {
        g.fail("block-too-small", case, format!("block of {} bytes requested, count + payload need {}", size, expect.size()));
    }
    if align < expect.align() {
        g.fail("block-under-aligned", case, format!("block requested with alignment {}, payload needs {}", align, expect.align()));
    }
    if size > expect.size() || align > expect.align() {
        g.notes.push(format!("{}: over-allocation ({}, {}) vs needed ({}, {})", case, size, align, expect.size(), expect.align()));
    }
    for (pa, ps, pal) in inspect(&b) {
        if pa % pal != 0 {
            g.fail("payload-misaligned", case, format!("payload at {:#x} is not aligned to {}", pa, pal));
        }
        if pa < addr + size_of::<usize>() || pa + ps > addr + size {
            g.fail("payload-outside-block", case, format!("payload [{:#x}, +{}) not inside block [{:#x}+8, +{})", pa, ps, addr, size));
        }
    }
    if let Err(m) = catch(|| cap(|| release(b))) {
        g.fail("release-panic", case, format!("release panicked: {}", m));
    }
    let live = arena::live_blocks();
    if !live.is_empty() {
        g.fail("not-freed", case, format!("after the last handle was released the block is still allocated: {:?}", live));
    }
    let deallocs = arena::events_since(0).iter().filter(|e| e.kind == arena::EvKind::Dealloc && e.addr == addr).count();
    if deallocs != 1 {
        g.fail("free-count", case, format!("block returned {} times", deallocs));
    }
    for e in arena::errors_since(0) {
        let code = match e.kind {
            ErrKind::LayoutMismatch => "free-layout-mismatch",
            ErrKind::DoubleFree => "double-free",
            ErrKind::NotABlock => "free-wrong-address",
            ErrKind::RedZone => "write-outside-block",
            ErrKind::Overflowed => "machinery:arena-overflow",
        };
        g.fail(code, case, format!("{:?}", e));
    }
}

fn hs_ranges<H, T>(a: &HeaderSlice<H, [T]>) -> Vec<(usize, usize, usize)> {
    vec![(&a.header as *const H as usize, size_of::<H>(), align_of::<H>()), (a.slice.as_ptr() as usize, std::mem::size_of_val(&a.slice), align_of::<T>())]
}

pub fn pair<H: Shape, T: Shape>(g: &mut Grid, lens: &[usize]) {
    let zst = size_of::<T>() == 0;
    for &n in lens {
        let Some((lay, _, _)) = exp_hs::<H, T>(n) else { continue };
        let Some((tlay, _, _)) = exp_hs::<HeaderWithLength<H>, T>(n) else { continue };
        let items = || (0..n).map(|i| T::make(i as u32 + 10));
        type Fat<H, T> = Arc<HeaderSlice<H, [T]>>;
        // ---- fat constructors x release paths
        for ctor in ["iter", "slice", "vec", "uninit"] {
            for rel in ["drop", "raw", "clone2", "unique"] {
                let case = format!("HeaderSlice<{},[{};{}]> ctor={} release={}", H::NAME, T::NAME, n, ctor, rel);
                let class = format!("hs|{}|{}|{}|{}|{}", H::NAME, T::NAME, n.min(3), ctor, rel);
                eval(
                    g,
                    &case,
                    class,
                    lay,
                    zst && (ctor == "iter" || ctor == "slice"),
                    || -> Fat<H, T> {
                        match ctor {
                            "iter" => Arc::from_header_and_iter(H::make(1), items()),
                            "slice" => {
                                let v: Vec<T> = arena::suspend(|| items().collect());
                                let a = Arc::from_header_and_slice(H::make(1), &v);
                                arena::suspend(|| drop(v));
                                a
                            }
                            "vec" => {
                                let v: Vec<T> = arena::suspend(|| items().collect());
                                Arc::from_header_and_vec(H::make(1), v)
                            }
                            _ => {
                                let mut u = UniqueArc::<HeaderSlice<H, [MaybeUninit<T>]>>::from_header_and_uninit_slice(H::make(1), n);
                                for (i, s) in u.slice.iter_mut().enumerate() {
                                    s.write(T::make(i as u32 + 10));
                                }
                                unsafe { u.assume_init_slice_with_header() }.shareable()
                            }
                        }
                    },
                    |a| hs_ranges(a),
                    |a| match rel {
                        "drop" => drop(a),
                        "raw" => {
                            let p = Arc::into_raw(a);
                            drop(unsafe { Arc::from_raw(p) })
                        }
                        "clone2" => {
                            let b = a.clone();
                            drop(a);
                            drop(b)
                        }
                        _ => drop(Arc::try_unique(a).ok().expect("sole owner")),
                    },
                );
            }
        }
        // ---- thin constructors x release paths
        for ctor in ["thin_iter", "thin_slice", "fat_into_thin"] {
            for rel in ["drop", "raw", "to_fat", "clone2", "with_arc_clone"] {
                let case = format!("ThinArc<{},{};{}> ctor={} release={}", H::NAME, T::NAME, n, ctor, rel);
                let class = format!("thin|{}|{}|{}|{}|{}", H::NAME, T::NAME, n.min(3), ctor, rel);
                eval(
                    g,
                    &case,
                    class,
                    tlay,
                    zst,
                    || -> ThinArc<H, T> {
                        match ctor {
                            "thin_iter" => ThinArc::from_header_and_iter(H::make(1), items()),
                            "thin_slice" => {
                                let v: Vec<T> = arena::suspend(|| items().collect());
                                let a = ThinArc::from_header_and_slice(H::make(1), &v);
                                arena::suspend(|| drop(v));
                                a
                            }
                            _ => Arc::into_thin(Arc::from_header_and_iter(HeaderWithLength::new(H::make(1), n), items())),
                        }
                    },
                    |a| {
                        let mut r = hs_ranges(&**a);
                        r[0] = (&a.header.header as *const H as usize, size_of::<H>(), align_of::<H>());
                        r.push((&a.header as *const HeaderWithLength<H> as usize, size_of::<HeaderWithLength<H>>(), align_of::<HeaderWithLength<H>>()));
                        r
                    },
                    |a| match rel {
                        "drop" => drop(a),
                        "raw" => {
                            let p = a.into_raw();
                            drop(unsafe { ThinArc::<H, T>::from_raw(p) })
                        }
                        "to_fat" => drop(Arc::from_thin(a)),
                        "clone2" => {
                            let b = a.clone();
                            drop(a);
                            drop(b)
                        }
                        _ => {
                            let f = a.with_arc(|x| x.clone());
                            drop(a);
                            drop(f)
                        }
                    },
                );
            }
        }
    }
}

/// `Arc<[T]>`, `Arc<T>` and friends for one element shape
pub fn single<T: Shape>(g: &mut Grid, lens: &[usize]) {
    let zst = size_of::<T>() == 0;
    for &n in lens {
        let Some((lay, _, _)) = exp_hs::<(), T>(n) else { continue };
        let items = || (0..n).map(|i| T::make(i as u32 + 10));
        for ctor in ["from_vec", "from_vec_slack", "from_slice", "collect_exact", "collect_inexact", "uninit_slice", "unique_collect"] {
            for rel in ["drop", "raw_slice", "erase", "clone2", "unique"] {
                let case = format!("Arc<[{};{}]> ctor={} release={}", T::NAME, n, ctor, rel);
                let class = format!("slice|{}|{}|{}|{}", T::NAME, n.min(3), ctor, rel);
                eval(
                    g,
                    &case,
                    class,
                    lay,
                    zst,
                    || -> Arc<[T]> {
                        match ctor {
                            "from_vec" => Arc::from(arena::suspend(|| items().collect::<Vec<T>>())),
                            "from_vec_slack" => Arc::from(arena::suspend(|| {
                                let mut v = Vec::with_capacity(n + 5);
                                v.extend(items());
                                v
                            })),
                            "from_slice" => {
                                let v: Vec<T> = arena::suspend(|| items().collect());
                                let a = Arc::from(&v[..]);
                                arena::suspend(|| drop(v));
                                a
                            }
                            "collect_exact" => items().collect(),
                            "collect_inexact" => items().filter(|_| true).collect(),
                            "unique_collect" => items().collect::<UniqueArc<[T]>>().shareable(),
                            _ => {
                                let mut u = UniqueArc::<[MaybeUninit<T>]>::new_uninit_slice(n);
                                for (i, s) in u.iter_mut().enumerate() {
                                    s.write(T::make(i as u32 + 10));
                                }
                                unsafe { UniqueArc::assume_init_slice(u) }.shareable()
                            }
                        }
                    },
                    |a| vec![((**a).as_ptr() as usize, std::mem::size_of_val(&**a), align_of::<T>())],
                    |a| match rel {
                        "drop" => drop(a),
                        "raw_slice" => {
                            let p = Arc::into_raw(a);
                            drop(unsafe { Arc::from_raw_slice(p) })
                        }
                        "erase" => drop(Arc::<HeaderSlice<(), [T]>>::from(a)),
                        "clone2" => {
                            let b = a.clone();
                            drop(a);
                            drop(b)
                        }
                        _ => drop(Arc::try_unique(a).ok().expect("sole owner")),
                    },
                );
            }
        }
    }
    // sized
    let (lay, _) = exp_sized::<T>();
    for ctor in ["new", "from_t", "from_box", "unique_new", "new_uninit", "unique_new_uninit"] {
        for rel in ["drop", "offset", "union_first", "union_second", "unique", "raw", "dyn", "erase", "into_inner", "try_unwrap", "unwrap_or_clone", "make_mut_shared", "unsize_dyn", "unsize_slice"] {
            if (rel == "unsize_dyn" || rel == "unsize_slice") && !cfg!(feature = "cfg_all") {
                continue;
            }
            let case = format!("Arc<{}> ctor={} release={}", T::NAME, ctor, rel);
            let class = format!("sized|{}|{}|{}", T::NAME, ctor, rel);
            eval(
                g,
                &case,
                class,
                lay,
                false,
                || -> Arc<T> {
                    match ctor {
                        "new" => Arc::new(T::make(1)),
                        "from_t" => Arc::from(T::make(1)),
                        "from_box" => {
                            let b = arena::suspend(|| Box::new(T::make(1)));
                            Arc::from(b)
                        }
                        "unique_new" => UniqueArc::new(T::make(1)).shareable(),
                        "new_uninit" => {
                            let mut a = Arc::<MaybeUninit<T>>::new_uninit();
                            Arc::get_mut(&mut a).unwrap().write(T::make(1));
                            unsafe { a.assume_init() }
                        }
                        _ => {
                            let mut u = UniqueArc::<T>::new_uninit();
                            u.write(T::make(1));
                            unsafe { UniqueArc::assume_init(u) }.shareable()
                        }
                    }
                },
                |a| vec![(&**a as *const T as usize, size_of::<T>(), align_of::<T>())],
                |a| match rel {
                    "drop" => drop(a),
                    "offset" => {
                        let o: OffsetArc<T> = Arc::into_raw_offset(a);
                        let o2 = o.clone();
                        drop(o);
                        drop(o2)
                    }
                    "union_first" => {
                        let u = ArcUnion::<T, S3a1>::from_first(a);
                        let u2 = u.clone();
                        drop(u);
                        drop(u2)
                    }
                    "union_second" => {
                        let u = ArcUnion::<S64a64, T>::from_second(a);
                        let u2 = u.clone();
                        drop(u);
                        drop(u2)
                    }
                    "unique" => drop(Arc::try_unique(a).ok().expect("sole owner")),
                    "raw" => {
                        let p = Arc::into_raw(a);
                        drop(unsafe { Arc::from_raw(p) })
                    }
                    "dyn" => {
                        let p = Arc::into_raw(a) as *const dyn Tr;
                        let d: Arc<dyn Tr> = unsafe { Arc::from_raw(p) };
                        let _ = d.sz();
                        drop(d)
                    }
                    "erase" => drop(Arc::<HeaderSlice<(), T>>::from(a)),
                    "into_inner" => {
                        let _v: T = UniqueArc::into_inner(Arc::try_unique(a).ok().expect("sole owner"));
                    }
                    "try_unwrap" => {
                        let _v: T = Arc::try_unwrap(a).ok().expect("sole owner");
                    }
                    "unwrap_or_clone" => {
                        let _v: T = Arc::unwrap_or_clone(a);
                    }
                    "make_mut_shared" => {
                        // copy-on-write allocates a second block of the same layout; both must go
                        let mut b = a.clone();
                        let _ = Arc::make_mut(&mut b);
                        drop(a);
                        drop(b)
                    }
                    #[cfg(feature = "cfg_all")]
                    "unsize_dyn" => {
                        use unsize::{CoerceUnsize, Coercion};
                        let d: Arc<dyn Tr> = a.unsize(Coercion!(to dyn Tr));
                        drop(d)
                    }
                    #[cfg(feature = "cfg_all")]
                    "unsize_slice" => {
                        use unsize::{CoerceUnsize, Coercion};
                        let arr: Arc<[T; 3]> = Arc::new([T::make(1), T::make(2), T::make(3)]);
                        let s: Arc<[T]> = arr.unsize(Coercion::to_slice());
                        drop(s);
                        drop(a)
                    }
                    _ => unreachable!(),
                },
            );
        }
    }
}

// ------------------------------------------------------------------ overflow boundaries (child processes)
struct Lying<T> {
    claim: usize,
    real: usize,
    _p: std::marker::PhantomData<T>,
}
impl<T: Shape> Iterator for Lying<T> {
    type Item = T;
    fn next(&mut self) -> Option<T> {
        if self.real == 0 {
            None
        } else {
            self.real -= 1;
            Some(T::make(3))
        }
    }
    fn size_hint(&self) -> (usize, Option<usize>) {
        (self.claim, Some(self.claim))
    }
}
impl<T: Shape> ExactSizeIterator for Lying<T> {
    fn len(&self) -> usize {
        self.claim
    }
}

fn ovf_one<T: Shape>(ctor: &str, n: usize) {
    // the arena refuses anything it cannot hold; the refusal is written to fd 1 by the allocator
    let r = catch(|| {
        cap(|| match ctor {
            "new_uninit_slice" => {
                let a = Arc::<[MaybeUninit<T>]>::new_uninit_slice(n);
                (a.len(), arena::live_blocks())
            }
            "header_uninit_slice" => {
                let a = UniqueArc::<HeaderSlice<S8a8, [MaybeUninit<T>]>>::from_header_and_uninit_slice(S8a8::make(1), n);
                (a.slice.len(), arena::live_blocks())
            }
            "iter_lying_len" => {
                let a = Arc::from_header_and_iter(S8a8::make(1), Lying::<T> { claim: n, real: 2, _p: Default::default() });
                (a.slice.len(), arena::live_blocks())
            }
            "thin_iter_lying_len" => {
                let a = ThinArc::from_header_and_iter(S8a8::make(1), Lying::<T> { claim: n, real: 2, _p: Default::default() });
                (a.slice.len(), arena::live_blocks())
            }
            _ => unreachable!(),
        })
    });
    match r {
        Err(m) => println!("PANIC {}", m.lines().next().unwrap_or("")),
        Ok((len, live)) => println!("RETURNED len={} live={:?}", len, live),
    }
}

pub fn child_overflow(args: &[String]) {
    let ctor = crate::arg(args, "--ctor").unwrap();
    let ts: usize = crate::arg(args, "--tsize").unwrap().parse().unwrap();
    let n: usize = crate::arg(args, "--len").unwrap().parse().unwrap();
    arena::set_refusal_fd(1);
    match ts {
        1 => ovf_one::<S1a1>(&ctor, n),
        2 => ovf_one::<S2a2>(&ctor, n),
        3 => ovf_one::<S3a1>(&ctor, n),
        8 => ovf_one::<S8a8>(&ctor, n),
        24 => ovf_one::<S24a8>(&ctor, n),
        64 => ovf_one::<S64a64>(&ctor, n),
        _ => panic!("tsize"),
    }
}

fn overflow_grid(g: &mut Grid, tier: &str) {
    vrt::crash::idle(); // waits on child processes, not on a cell
    use std::process::Command;
    let exe = std::env::current_exe().unwrap();
    let sizes: &[(usize, usize)] = if tier == "thorough" { &[(1, 1), (2, 2), (3, 1), (8, 8), (24, 8), (64, 64)] } else { &[(1, 1), (3, 1), (8, 8), (64, 64)] };
    let mut jobs = vec![];
    for ctor in ["new_uninit_slice", "header_uninit_slice", "iter_lying_len", "thin_iter_lying_len"] {
        for &(ts, ta) in sizes {
            let mut lens: Vec<usize> = vec![usize::MAX, usize::MAX - 1, usize::MAX / 2, usize::MAX / 2 + 1];
            for base in [isize::MAX as usize / ts, usize::MAX / ts] {
                for d in [-40i64, -17, -9, -2, -1, 0, 1, 2] {
                    lens.push((base as i128 + d as i128).clamp(0, usize::MAX as i128) as usize);
                }
            }
            lens.sort();
            lens.dedup();
            for n in lens {
                jobs.push((ctor, ts, ta, n));
            }
        }
    }
    let results: Vec<(usize, String, i32)> = {
        let next = std::sync::atomic::AtomicUsize::new(0);
        let out = std::sync::Mutex::new(vec![]);
        vrt::crash::idle(); // waiting on child processes is not a hang
        std::thread::scope(|s| {
            for _ in 0..16 {
                s.spawn(|| loop {
                    let i = next.fetch_add(1, std::sync::atomic::Ordering::Relaxed);
                    if i >= jobs.len() {
                        break;
                    }
                    let (ctor, ts, _, n) = jobs[i];
                    let o = Command::new(&exe).args(["--child", "c05ovf", "--ctor", ctor, "--tsize", &ts.to_string(), "--len", &n.to_string()]).output().unwrap();
                    use std::os::unix::process::ExitStatusExt;
                    let code = o.status.code().unwrap_or_else(|| -o.status.signal().unwrap_or(0));
                    out.lock().unwrap().push((i, String::from_utf8_lossy(&o.stdout).to_string(), code));
                });
            }
        });
        let mut v = out.into_inner().unwrap();
        v.sort();
        v
    };
    for (i, stdout, code) in results {
        let (ctor, ts, ta, n) = jobs[i];
        let case = format!("overflow ctor={} elem(size {}, align {}) len={}", ctor, ts, ta, n);
        // bytes really needed, in 128-bit arithmetic: count word + header (8, for the header ctors; +8 length for thin) + n*ts, padded
        let hdr: u128 = match ctor {
            "new_uninit_slice" => 0,
            "thin_iter_lying_len" => 16,
            _ => 8,
        };
        let al = ta.max(8) as u128;
        let data_off = (8 + al - 1) / al * al;
        let mut need: u128 = data_off + ((hdr + (ta as u128) - 1) / (ta as u128) * (ta as u128)) + (n as u128) * (ts as u128);
        if ctor.contains("iter") {
            // an implementation may gather the items in scratch memory first: the first big request
            // may then be for the elements alone
            need = (n as u128) * (ts as u128);
        }
        let outcome = if let Some(l) = stdout.lines().find(|l| l.starts_with("REFUSED")) {
            let sz: u128 = l.split("size=").nth(1).and_then(|s| s.split_whitespace().next()).and_then(|s| s.parse().ok()).unwrap_or(0);
            if sz < need {
                g.fail("overflow-short-request", &case, format!("allocator was asked for {} bytes although count + header + {} elements need at least {}", sz, n, need));
            }
            if code != -6 && code != 134 {
                g.fail("overflow-no-abort", &case, format!("allocation was refused but the process ended with {} instead of the allocation-error abort; stdout {:?}", code, stdout));
            }
            "refused+abort"
        } else if stdout.contains("PANIC") {
            "panic"
        } else if stdout.contains("RETURNED len=2 ") && ctor.contains("iter") {
            // the iterator lied about its length and really has two items: a handle with exactly those two is a correct answer
            "returned-true-contents"
        } else if stdout.contains("RETURNED") {
            g.fail("overflow-returned", &case, format!("constructor returned for an impossible length: {}", stdout.trim()));
            "returned"
        } else {
            g.fail("overflow-crash", &case, format!("process ended with {} and no panic / refusal record; stdout {:?}", code, stdout));
            "crash"
        };
        g.case(format!("ovf|{}|{}|{}", ctor, ts, outcome), || format!("{} -> {}", case, outcome));
    }
}

macro_rules! all_shapes {
    ($m:ident, $f:ident, $args:tt) => {
        $m!($f, $args; [S0a1, S1a1, S3a1, S5a1, S7a1, S9a1, S64a1, S2a2, S6a2, S4a4, S12a4, S8a8, S24a8, S16a16, S48a16, S32a32, S64a64, S0a2, S0a8, S0a16, S0a64])
    };
}
macro_rules! quick_shapes {
    ($m:ident, $f:ident, $args:tt) => {
        $m!($f, $args; [S0a1, S1a1, S3a1, S2a2, S8a8, S24a8, S16a16, S64a64])
    };
}

pub fn run(tier: &str, only: Option<&str>) -> Vec<Grid> {
    let mut out = vec![];
    let lens_q: &[usize] = &[0, 1, 2, 3, 7];
    let lens_t: &[usize] = &[0, 1, 2, 3, 7, 8, 9, 15, 16, 17, 33];
    if only.is_none() || only == Some("pairs") {
        let mut g = Grid::new("c05.pairs", "every (header shape, element shape, length, constructor, release path) of the header-slice and thin families; a case is non-trivial when it allocates; distinct = distinct (shapes, min(len,3), constructor, release path)");
        let gr = &mut g;
        if tier == "thorough" {
            all_shapes!(for_pairs, pair, (gr, lens_t));
        } else {
            quick_shapes!(for_pairs, pair, (gr, lens_q));
        }
        out.push(g);
    }
    if only.is_none() || only == Some("single") {
        let mut g = Grid::new("c05.single", "every (element shape, length, constructor, release path) of Arc<[T]> and Arc<T> incl. OffsetArc/ArcUnion/UniqueArc/raw/dyn/erased/unwrapped release");
        let gr = &mut g;
        if tier == "thorough" {
            all_shapes!(for_each_shape, single, (gr, lens_t));
        } else {
            all_shapes!(for_each_shape, single, (gr, lens_q));
        }
        for_each_shape!(single, (gr, lens_q); [S300a1, S258a2, S260a4, S1000a8, S320a64]);
        out.push(g);
    }
    if only.is_none() || only == Some("overflow") {
        let mut g = Grid::new("c05.overflow", "length-only constructors and lying ExactSizeIterator at every overflow boundary (isize::MAX/size, usize::MAX/size, usize::MAX, +-2 and a few below), one child process each; outcome must be a panic or an allocator request that covers the need followed by the allocation-error abort");
        overflow_grid(&mut g, tier);
        out.push(g);
    }
    out
}
