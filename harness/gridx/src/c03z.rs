//! C03 (grid part): uniqueness verdicts for payloads of size zero and other degenerate shapes.
//! For zero-sized values, empty slices and empty strings every gated API must still answer by the
//! number of owning handles, for every co-owner kind.
use crate::grid::Grid;
use crate::shapes::*;
use std::mem::MaybeUninit;
use triomphe::{Arc, ArcUnion, HeaderSlice, OffsetArc, UniqueArc};
use vrt::arena::{self, cap};
use vrt::catch;

fn verdict(g: &mut Grid, case: &str, api: &str, granted: bool, owners: usize) {
    if granted != (owners == 1) {
        g.fail(&format!("uniqueness-verdict:{}", api), case, format!("{} granted={} with {} owning handles", api, granted, owners));
    }
}

/// a sized payload type `T` (zero-sized or not) shared `extra` more times through each co-owner kind
pub fn sized<T: DShape + Clone>(g: &mut Grid) {
    for co in ["none", "arc", "two_arcs", "offset", "union_first", "union_second", "raw", "erased", "borrow_clone"] {
        for api in ["is_unique", "get_mut", "get_unique", "try_unique", "try_from", "try_unwrap", "make_mut", "make_unique", "offset_make_mut", "unwrap_or_clone"] {
            let case = format!("Arc<{}> co-owner={} api={}", T::NAME, co, api);
            vrt::begin_execution();
            g.case(format!("zst|{}|{}|{}", T::NAME, co, api), || case.clone());
            let d0 = T::drops();
            let mut a = cap(|| Arc::new(T::make(1)));
            let block = a.heap_ptr() as usize;
            enum Co<T> {
                None,
                A(Arc<T>),
                AA(Arc<T>, Arc<T>),
                O(OffsetArc<T>),
                U1(ArcUnion<T, u8>),
                U2(ArcUnion<u8, T>),
                R(*const T),
                E(Arc<HeaderSlice<(), T>>),
            }
            let coh = cap(|| match co {
                "none" => Co::None,
                "arc" => Co::A(a.clone()),
                "two_arcs" => Co::AA(a.clone(), a.clone()),
                "offset" => Co::O(Arc::into_raw_offset(a.clone())),
                "union_first" => Co::U1(ArcUnion::from_first(a.clone())),
                "union_second" => Co::U2(ArcUnion::from_second(a.clone())),
                "raw" => Co::R(Arc::into_raw(a.clone())),
                "erased" => Co::E(a.clone().into()),
                _ => Co::A(a.borrow_arc().clone_arc()),
            });
            let owners = match co {
                "none" => 1,
                "two_arcs" => 3,
                _ => 2,
            };
            let mut consumed = false;
            let mut extra_alloc = 0usize;
            match api {
                "is_unique" => verdict(g, &case, api, a.is_unique(), owners),
                "get_mut" => verdict(g, &case, api, Arc::get_mut(&mut a).is_some(), owners),
                "get_unique" => verdict(g, &case, api, Arc::get_unique(&mut a).is_some(), owners),
                "try_unique" | "try_from" => {
                    let r = if api == "try_unique" { Arc::try_unique(a) } else { <UniqueArc<T> as TryFrom<Arc<T>>>::try_from(a) };
                    verdict(g, &case, api, r.is_ok(), owners);
                    a = match r {
                        Ok(u) => u.shareable(),
                        Err(x) => x,
                    };
                }
                "try_unwrap" => {
                    let r = cap(|| Arc::try_unwrap(a));
                    verdict(g, &case, api, r.is_ok(), owners);
                    match r {
                        Ok(v) => {
                            drop(v);
                            consumed = true;
                            a = cap(|| Arc::new(T::make(1)));
                            extra_alloc = 1;
                        }
                        Err(x) => a = x,
                    }
                }
                "unwrap_or_clone" => {
                    let v = cap(|| Arc::unwrap_or_clone(a));
                    drop(v);
                    consumed = true;
                    a = cap(|| Arc::new(T::make(1)));
                    extra_alloc = 1;
                }
                "make_mut" | "make_unique" => {
                    cap(|| {
                        if api == "make_mut" {
                            let _ = Arc::make_mut(&mut a);
                        } else {
                            let _ = Arc::make_unique(&mut a);
                        }
                    });
                    // in place iff sole owner: otherwise the handle must have moved to a fresh block
                    verdict(g, &case, api, a.heap_ptr() as usize == block, owners);
                }
                "offset_make_mut" => {
                    let mut o = cap(|| Arc::into_raw_offset(a));
                    cap(|| {
                        let _ = o.make_mut();
                    });
                    a = cap(|| Arc::from_raw_offset(o));
                    verdict(g, &case, api, a.heap_ptr() as usize == block, owners);
                }
                _ => unreachable!(),
            }
            // the co-owners must still be there and count the right number of handles
            let moved_away = a.heap_ptr() as usize != block;
            let left = if consumed || moved_away { owners - 1 } else { owners };
            let cnt = match &coh {
                Co::None => None,
                Co::A(x) | Co::AA(x, _) => Some(Arc::count(x)),
                Co::O(x) => Some(OffsetArc::strong_count(x)),
                Co::U1(x) => Some(ArcUnion::strong_count(x)),
                Co::U2(x) => Some(ArcUnion::strong_count(x)),
                Co::R(p) => Some(unsafe { triomphe::ArcBorrow::strong_count(&triomphe::ArcBorrow::from_ptr(*p)) }),
                Co::E(x) => Some(Arc::count(x)),
            };
            if let Some(c) = cnt {
                if c != left {
                    g.fail("co-owner-count", &case, format!("after the call the co-owner reports {} owners, expected {}", c, left));
                }
                if T::drops() != d0 + if consumed && owners == 1 { 1 } else { 0 } + if api == "unwrap_or_clone" && owners > 1 { 1 } else { 0 } {
                    g.fail("destroyed-while-owned", &case, format!("{} destructor runs of the payload type while co-owners are alive", T::drops() - d0));
                }
            }
            let _ = extra_alloc;
            cap(|| {
                drop(a);
                match coh {
                    Co::R(p) => drop(unsafe { Arc::from_raw(p) }),
                    other => drop(other),
                }
            });
            if !arena::live_blocks().is_empty() || arena::n_errors() != 0 {
                g.fail("release", &case, format!("after releasing everything: live {:?} errors {:?}", arena::live_blocks(), arena::errors_since(0)));
            }
        }
    }
}

/// unsized payloads of zero bytes: empty slices (of zero-sized and of ordinary elements), empty str
fn unsized_empty(g: &mut Grid) {
    for what in ["Arc<[u64;0 elems]>", "Arc<[();3 elems]>", "Arc<str \"\">", "Arc<[MaybeUninit<u64>] len 0>.as_mut_slice", "Arc<MaybeUninit<()>>.write"] {
        for shared in [false, true] {
            let case = format!("{} shared={}", what, shared);
            vrt::begin_execution();
            g.case(format!("zst-unsized|{}|{}", what, shared), || case.clone());
            let owners = if shared { 2 } else { 1 };
            match what {
                "Arc<[u64;0 elems]>" | "Arc<[();3 elems]>" => {
                    macro_rules! go {
                        ($mk:expr) => {{
                            let mut a = cap(|| $mk);
                            let co = if shared { Some(cap(|| a.clone())) } else { None };
                            verdict(g, &case, "is_unique", a.is_unique(), owners);
                            verdict(g, &case, "get_mut", Arc::get_mut(&mut a).is_some(), owners);
                            verdict(g, &case, "get_unique", Arc::get_unique(&mut a).is_some(), owners);
                            let r = Arc::try_unique(a);
                            verdict(g, &case, "try_unique", r.is_ok(), owners);
                            cap(|| drop((r, co)));
                        }};
                    }
                    if what.contains("u64") {
                        go!(Arc::<[u64]>::from(Vec::<u64>::new()))
                    } else {
                        go!(Arc::<[()]>::from(vec![(), (), ()]))
                    }
                }
                "Arc<str \"\">" => {
                    let mut a: Arc<str> = cap(|| Arc::from(""));
                    let co = if shared { Some(cap(|| a.clone())) } else { None };
                    verdict(g, &case, "is_unique", a.is_unique(), owners);
                    verdict(g, &case, "get_mut", Arc::get_mut(&mut a).is_some(), owners);
                    let r = Arc::try_unique(a);
                    verdict(g, &case, "try_unique", r.is_ok(), owners);
                    cap(|| drop((r, co)));
                }
                "Arc<[MaybeUninit<u64>] len 0>.as_mut_slice" => {
                    let mut a = cap(|| Arc::<[MaybeUninit<u64>]>::new_uninit_slice(0));
                    let co = if shared { Some(cap(|| a.clone())) } else { None };
                    #[allow(deprecated)]
                    let r = catch(|| {
                        let _ = a.as_mut_slice();
                    });
                    verdict(g, &case, "as_mut_slice", r.is_ok(), owners);
                    cap(|| drop((a, co)));
                }
                _ => {
                    let mut a = cap(Arc::<MaybeUninit<()>>::new_uninit);
                    let co = if shared { Some(cap(|| a.clone())) } else { None };
                    #[allow(deprecated)]
                    let r = catch(|| {
                        a.write(());
                    });
                    verdict(g, &case, "write", r.is_ok(), owners);
                    cap(|| drop((a, co)));
                }
            }
            if !arena::live_blocks().is_empty() || arena::n_errors() != 0 {
                g.fail("release", &case, format!("after releasing everything: live {:?} errors {:?}", arena::live_blocks(), arena::errors_since(0)));
            }
        }
    }
}

/// counts whose low bits look like "1": with two real owners and the count word forced to such a
/// value every uniqueness-gated API must still decline (the whole word is the count)
fn big_counts(g: &mut Grid) {
    use std::sync::atomic::{AtomicUsize, Ordering};
    let vals: Vec<usize> = [8u32, 16, 24, 31, 32, 33, 40, 48, 56, 62].iter().map(|k| (1usize << k) + 1).collect();
    for &v in &vals {
        for api in ["is_unique", "get_mut", "get_unique", "try_unique", "try_unwrap", "make_mut", "offset_make_mut"] {
            let case = format!("count word = {:#x} (two real owners) api={}", v, api);
            vrt::begin_execution();
            g.case(format!("bigcount|{}|{}", v.trailing_zeros().max((usize::BITS - 1) - v.leading_zeros()), api), || case.clone());
            let mut a = cap(|| Arc::new(D8a8::make(1)));
            let b = cap(|| a.clone());
            let k = vrt::rmwlog::len();
            let _ = Arc::count(&a);
            let addr = vrt::rmwlog::since(k).iter().find(|o| o.kind != vrt::rmwlog::AKind::Fence).map(|o| o.addr).expect("reading the count touched no atomic");
            let word = unsafe { &*(addr as *const AtomicUsize) };
            word.store(v, Ordering::SeqCst);
            let block = a.heap_ptr() as usize;
            let granted = match api {
                "is_unique" => a.is_unique(),
                "get_mut" => Arc::get_mut(&mut a).is_some(),
                "get_unique" => Arc::get_unique(&mut a).is_some(),
                "try_unique" => match Arc::try_unique(a) {
                    Ok(u) => {
                        a = u.shareable();
                        true
                    }
                    Err(x) => {
                        a = x;
                        false
                    }
                },
                "try_unwrap" => match Arc::try_unwrap(a) {
                    Ok(val) => {
                        // the value was moved out from under `b`: stop here without touching either
                        std::mem::forget(val);
                        std::mem::forget(b);
                        g.fail("uniqueness-verdict:try_unwrap", &case, "try_unwrap moved the value out although another owner exists".into());
                        continue;
                    }
                    Err(x) => {
                        a = x;
                        false
                    }
                },
                "make_mut" => {
                    cap(|| {
                        let _ = Arc::make_mut(&mut a);
                    });
                    a.heap_ptr() as usize == block
                }
                _ => {
                    let mut o = cap(|| Arc::into_raw_offset(a));
                    cap(|| {
                        let _ = o.make_mut();
                    });
                    a = cap(|| Arc::from_raw_offset(o));
                    a.heap_ptr() as usize == block
                }
            };
            if granted {
                g.fail(&format!("uniqueness-verdict:{}", api), &case, format!("{} treated the handle as the sole owner with the count at {:#x}", api, v));
            }
            // put the real count back before releasing anything
            let moved = a.heap_ptr() as usize != block;
            word.store(if moved { 1 } else { 2 }, Ordering::SeqCst);
            cap(|| drop((a, b)));
            if !arena::live_blocks().is_empty() || arena::n_errors() != 0 {
                g.fail("release", &case, format!("after releasing everything: live {:?} errors {:?}", arena::live_blocks(), arena::errors_since(0)));
            }
        }
    }
}

pub fn run(_tier: &str) -> Vec<Grid> {
    let mut g = Grid::new("c03.degenerate", "payload shape (zero-sized incl. over-aligned, 1-byte, ordinary; empty slices, empty str, MaybeUninit<()>) x co-owner kind x uniqueness-gated API: granted iff exactly one owning handle; co-owners keep an accurate count");
    sized::<D0a1>(&mut g);
    sized::<D0a8>(&mut g);
    sized::<D0a64>(&mut g);
    sized::<D1a1>(&mut g);
    sized::<D24a8>(&mut g);
    sized::<D64a64>(&mut g);
    unsized_empty(&mut g);
    big_counts(&mut g);
    vec![g]
}
