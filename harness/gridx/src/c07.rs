//! C07: panicking or lying callbacks cause no double drop and no uninitialised read;
//! allocation failure ends in the allocation-error path.
use crate::elems::*;
use crate::grid::Grid;
use std::collections::hash_map::DefaultHasher;
use std::hash::Hash;
use triomphe::{Arc, ArcBorrow, ArcUnion, HeaderSlice, OffsetArc, ThinArc, UniqueArc};
use vrt::arena::{self, cap};
use vrt::track::{self, Tracked};
use vrt::catch;

/// common post-conditions after a call that may have panicked
fn after(g: &mut Grid, case: &str, d0: usize, undropped_inner: usize, allow_half_built: bool) {
    let drops = track::drops_since(d0);
    let mut s = drops.clone();
    s.sort();
    let before = s.len();
    s.dedup();
    if s.len() != before && !s.iter().any(|d| d.0 == 11) {
        g.fail("double-drop", case, format!("a value was destroyed more than once: {:?}", drops));
    }
    for p in track::perr_since(0) {
        g.fail("poison-access", case, p);
    }
    for e in arena::errors_since(0) {
        g.fail("allocator-error", case, format!("{:?}", e));
    }
    let live = arena::live_blocks();
    let allowed = undropped_inner + if allow_half_built { 1 } else { 0 };
    if live.len() > allowed {
        g.fail("leak", case, format!("{} blocks left allocated: {:?} (tolerated: {} half-built allocation + {} boxes of elements leaked inside it)", live.len(), live, if allow_half_built { 1 } else { 0 }, undropped_inner));
    }
}

/// iterator-driven constructors under a scripted iterator; returns number of callbacks
fn iter_case<E: Elem>(g: &mut Grid, which: &str, regime: Regime, n_actual: usize, claims: &[usize], panic_at: usize) -> usize {
    let case = format!("{} elem={} regime={:?} actual={} reported={:?} panic_at_callback={}", which, E::NAME, regime, n_actual, claims, panic_at);
    vrt::begin_execution();
    g.begin(&case);
    let calls = std::rc::Rc::new(std::cell::Cell::new(0usize));
    let (hid, ids, it) = cap(|| {
        let items: Vec<E> = arena::suspend(Vec::new);
        let mut items = items;
        let mut ids = arena::suspend(Vec::new);
        for i in 0..n_actual {
            let e = E::make(i as u32);
            let id = e.look().1;
            arena::suspend(|| {
                ids.push(id);
            });
            arena::suspend(|| items.reserve(1));
            items.push(e);
        }
        let mut s = arena::suspend(|| Script::new(items, regime));
        s.claims = arena::suspend(|| claims.to_vec());
        s.calls = calls.clone();
        s.panic_at = panic_at;
        (0u32, ids, s)
    });
    let _ = hid;
    let d0 = track::n_drops();
    enum B<E> {
        Fat(Arc<HeaderSlice<HT, [E]>>),
        Thin(ThinArc<HT, E>),
        Plain(Arc<[E]>),
        Uniq(UniqueArc<[E]>),
    }
    let r = catch(|| {
        cap(|| match which {
            "from_header_and_iter" => B::Fat(Arc::from_header_and_iter(HT::make(), it)),
            "ThinArc::from_header_and_iter" => B::Thin(ThinArc::from_header_and_iter(HT::make(), it)),
            "Arc<[T]>::from_iter" => B::Plain(it.collect()),
            _ => B::Uniq(it.collect()),
        })
    });
    let ncalls = calls.get();
    let truthful = claims.iter().all(|c| *c == n_actual);
    match r {
        Err(m) => {
            g.case(format!("iter|{}|{}|{:?}|panic|{}", which, E::NAME, regime, if truthful { "truthful" } else { "lying" }), || format!("{} -> panic: {}", case, m.lines().next().unwrap_or("")));
            let dropped = track::drops_since(d0).iter().filter(|d| d.0 == E::TAG).count();
            after(g, &case, d0, (n_actual - dropped.min(n_actual)) * E::INNER_BLOCKS, true);
        }
        Ok(b) => {
            g.case(format!("iter|{}|{}|{:?}|ok|{}", which, E::NAME, regime, if truthful { "truthful" } else { "lying" }), || format!("{} -> ok", case));
            let (elems, thin_len): (&[E], Option<usize>) = match &b {
                B::Fat(a) => (&a.slice, None),
                B::Thin(a) => (&a.slice, Some(a.header.length)),
                B::Plain(a) => (a, None),
                B::Uniq(a) => (a, None),
            };
            // a constructor that returns must return the true contents, whatever the iterator claimed
            if elems.len() > n_actual {
                g.fail("uninit-exposed", &case, format!("handle exposes {} elements but the iterator produced only {}", elems.len(), n_actual));
            }
            if let Some(t) = thin_len {
                if t != elems.len() {
                    g.fail("thin-length-wrong", &case, format!("recorded length {} vs slice length {}", t, elems.len()));
                }
            }
            for (i, e) in elems.iter().enumerate().take(n_actual) {
                let (ok, id, _) = e.look();
                if !ok || id != ids[i] {
                    g.fail("element-wrong", &case, format!("element {} reads intact={} id={}, expected id {}", i, ok, id, ids[i]));
                }
            }
            let cnt = match &b {
                B::Fat(a) => Arc::count(a),
                B::Thin(a) => ThinArc::strong_count(a),
                B::Plain(a) => Arc::count(a),
                B::Uniq(_) => 1,
            };
            if cnt != 1 {
                g.fail("count-wrong", &case, format!("fresh handle reports count {}", cnt));
            }
            let kept = elems.len();
            cap(|| drop(b));
            let mut got: Vec<u32> = track::drops_since(d0).iter().filter(|d| d.0 == E::TAG).map(|d| d.1).collect();
            got.sort();
            let mut want = ids.clone();
            want.sort();
            if got != want && std::mem::size_of::<E>() != 0 {
                g.fail("drop-accounting", &case, format!("{} elements kept; element destructor log {:?}, inputs {:?}", kept, got, want));
            }
            after(g, &case, d0, 0, false);
        }
    }
    ncalls
}

fn iter_faults<E: Elem>(g: &mut Grid, thorough: bool) {
    let lens: &[usize] = if thorough { &[0, 1, 2, 3, 5] } else { &[0, 1, 3] };
    for which in ["from_header_and_iter", "ThinArc::from_header_and_iter", "Arc<[T]>::from_iter", "UniqueArc<[T]>::from_iter"] {
        let regimes: &[Regime] = if which.contains("from_iter") { &[Regime::Exact, Regime::LowerLtUpper, Regime::UnknownUpper, Regime::LowerZero] } else { &[Regime::Exact] };
        for &r in regimes {
            // (a) panic at each callback
            for &n in lens {
                let calls = iter_case::<E>(g, which, r, n, &[n], 0);
                for k in 1..=calls + 1 {
                    iter_case::<E>(g, which, r, n, &[n], k);
                }
            }
            // (b) lying lengths: |reported - actual| <= 2, reported 0..=4
            for reported in 0..=4usize {
                for actual in reported.saturating_sub(2)..=reported + 2 {
                    if actual == reported {
                        continue;
                    }
                    iter_case::<E>(g, which, r, actual, &[reported], 0);
                }
            }
            // (b') hints that change between calls (the crate asks up to three times on one path)
            let vals: &[usize] = if thorough { &[0, 1, 2, 3] } else { &[0, 2, 3] };
            for &a in vals {
                for &b in vals {
                    for &c in vals {
                        if a == b && b == c {
                            continue;
                        }
                        for actual in [0usize, 2, 3] {
                            iter_case::<E>(g, which, r, actual, &[a, b, c], 0);
                        }
                    }
                }
            }
        }
    }
}

/// the same faults far beyond the small lengths (2^k - 1, 2^k, 2^k + 1): a length-dependent path
/// (staging buffer, bulk copy) would start somewhere like this
fn iter_faults_big<E: Elem>(g: &mut Grid, thorough: bool) {
    let lens: &[usize] = if thorough { &[63, 64, 65, 127, 128, 129, 255, 256, 257, 1023, 1024, 1025, 4095, 4096, 4097] } else { &[127, 128, 129, 1023, 1024, 1025] };
    for which in ["from_header_and_iter", "ThinArc::from_header_and_iter", "Arc<[T]>::from_iter", "UniqueArc<[T]>::from_iter"] {
        let regimes: &[Regime] = if which.contains("from_iter") { &[Regime::Exact, Regime::LowerLtUpper, Regime::UnknownUpper] } else { &[Regime::Exact] };
        for &r in regimes {
            for &n in lens {
                let calls = iter_case::<E>(g, which, r, n, &[n], 0);
                for k in [1, 2, n / 2, n - 1, n, n + 1, calls - 1, calls, calls + 1] {
                    if k >= 1 && k <= calls + 1 {
                        iter_case::<E>(g, which, r, n, &[n], k);
                    }
                }
                for actual in [n - 2, n - 1, n + 1, n + 2] {
                    iter_case::<E>(g, which, r, actual, &[n], 0);
                }
                // the answer changes between calls
                for script in [[n, n - 1, n], [n - 1, n, n], [n, n + 1, n + 1], [n + 1, n, n - 1]] {
                    iter_case::<E>(g, which, r, n, &script, 0);
                }
            }
        }
    }
}

// ---------------------------------------------------------------- Clone panics
macro_rules! clone_faults_for {
    ($fname:ident, $P:ty, $pname:expr) => {
fn $fname(g: &mut Grid) {
    type P = $P;
    for api in ["make_mut", "make_unique", "unwrap_or_clone", "OffsetArc::make_mut"] {
        for co in ["none", "arc", "offset", "union", "raw"] {
            for k in [1usize, 2] {
                let case = format!("{} payload={} co-owner={} panic_at_clone={}", api, $pname, co, k);
                vrt::begin_execution();
                let a = cap(|| Arc::new(P::new(5)));
                let id = a.id();
                enum Co {
                    None,
                    A(Arc<P>),
                    O(OffsetArc<P>),
                    U(ArcUnion<u64, P>),
                    R(*const P),
                }
                let coh = cap(|| match co {
                    "none" => Co::None,
                    "arc" => Co::A(a.clone()),
                    "offset" => Co::O(Arc::into_raw_offset(a.clone())),
                    "union" => Co::U(ArcUnion::from_second(a.clone())),
                    _ => Co::R(Arc::into_raw(a.clone())),
                });
                let shared = co != "none";
                let d0 = track::n_drops();
                track::arm_clone_panic(k);
                enum Keep {
                    A(Arc<P>),
                    O(OffsetArc<P>),
                    Gone,
                }
                let mut keep = if api == "OffsetArc::make_mut" { Keep::O(Arc::into_raw_offset(a)) } else { Keep::A(a) };
                let r = catch(|| {
                    cap(|| match (api, &mut keep) {
                        ("make_mut", Keep::A(x)) => {
                            Arc::make_mut(x).set_val(9);
                        }
                        ("make_unique", Keep::A(x)) => {
                            Arc::make_unique(x).set_val(9);
                        }
                        ("OffsetArc::make_mut", Keep::O(x)) => {
                            x.make_mut().set_val(9);
                        }
                        ("unwrap_or_clone", k) => {
                            let Keep::A(x) = std::mem::replace(k, Keep::Gone) else { unreachable!() };
                            let v = Arc::unwrap_or_clone(x);
                            drop(v);
                        }
                        _ => unreachable!(),
                    })
                });
                let ncl = track::clone_calls();
                track::arm_clone_panic(0);
                let panicked = r.is_err();
                g.case(format!("clone|{}|{}|{}|{}|{}", $pname, api, co, k, panicked), || format!("{} -> {}", case, if panicked { "panic" } else { "ok" }));
                if panicked != (shared && k == 1) {
                    g.fail("unexpected-outcome", &case, format!("panicked={} with {} Clone calls (a panic is expected exactly when the value is shared and the first clone is armed)", panicked, ncl));
                }
                // surviving handles: valid, accurate count
                let mut owners = 0;
                if !matches!(keep, Keep::Gone) {
                    owners += 1;
                }
                let moved_away = !panicked && shared && api != "unwrap_or_clone";
                let co_owners = if shared { 1 } else { 0 };
                match &keep {
                    Keep::A(x) => {
                        let want = if moved_away { 1 } else { owners + co_owners };
                        let pk = x.peek();
                        if !pk.intact() || Arc::count(x) != want {
                            g.fail("survivor-invalid", &case, format!("the handle passed by &mut reads {} with count {} (expected intact, {})", pk.describe(), Arc::count(x), want));
                        }
                        if panicked && (pk.id != id || pk.val != 5) {
                            g.fail("survivor-changed", &case, format!("after the panic the handle refers to id {} val {} (was id {} val 5)", pk.id, pk.val, id));
                        }
                    }
                    Keep::O(x) => {
                        let want = if moved_away { 1 } else { owners + co_owners };
                        let pk = x.peek();
                        if !pk.intact() || OffsetArc::strong_count(x) != want {
                            g.fail("survivor-invalid", &case, format!("the OffsetArc passed by &mut reads {} with count {} (expected intact, {})", pk.describe(), OffsetArc::strong_count(x), want));
                        }
                    }
                    Keep::Gone => {}
                }
                let co_want = if matches!(keep, Keep::Gone) || moved_away { 1 } else { 2 };
                let (cpk, ccount) = match &coh {
                    Co::None => (None, 0),
                    Co::A(x) => (Some(x.peek()), Arc::count(x)),
                    Co::O(x) => (Some(x.peek()), OffsetArc::strong_count(x)),
                    Co::U(x) => (Some(x.as_second().unwrap().peek()), ArcUnion::strong_count(x)),
                    Co::R(p) => (Some(unsafe { (**p).peek() }), ArcBorrow::strong_count(&unsafe { ArcBorrow::from_ptr(*p) })),
                };
                if let Some(pk) = cpk {
                    if !pk.intact() || pk.id != id || pk.val != 5 || ccount != co_want {
                        g.fail("co-owner-damaged", &case, format!("the co-owner reads {} id {} val {} with count {} (expected the original value 5, count {})", pk.describe(), pk.id, pk.val, ccount, co_want));
                    }
                }
                cap(|| {
                    drop(keep);
                    match coh {
                        Co::R(p) => drop(unsafe { Arc::from_raw(p) }),
                        other => drop(other),
                    }
                });
                after(g, &case, d0, 0, false);
                if !arena::live_blocks().is_empty() {
                    g.fail("leak", &case, format!("{:?}", arena::live_blocks()));
                }
                let mut all = track::drops_since(0);
                all.sort();
                let want: Vec<(u8, u32)> = (1..track::next_id_peek()).map(|i| (6u8, i)).collect();
                if all != want {
                    g.fail("drop-accounting", &case, format!("every value created must be destroyed exactly once by the end: created ids 1..{}, log {:?}", track::next_id_peek(), all));
                }
            }
        }
    }
}

    };
}
clone_faults_for!(clone_faults, Tracked<6>, "tracked16");
clone_faults_for!(clone_faults_big, vrt::track::TrackedB<6>, "tracked320");

// ---------------------------------------------------------------- closure panics in with_* callbacks
fn closure_faults(g: &mut Grid) {
    type Th = ThinArc<Tracked<12>, Tracked<6>>;
    for api in ["ThinArc::with_arc", "OffsetArc::with_arc", "ArcBorrow::with_arc", "Arc::with_raw_offset_arc", "ThinArc::with_arc_mut"] {
        let behaviours: &[&str] = if api == "ThinArc::with_arc_mut" { &["nothing", "write", "clone_out", "replace", "replace_shared", "make_unique_none"] } else { &["nothing", "clone_out"] };
        for beh in behaviours {
            for panics in [false, true] {
                let case = format!("{} callback={} then_panic={}", api, beh, panics);
                vrt::begin_execution();
                let d0 = track::n_drops();
                let mut expect_owners = 1usize;
                let mut replaced = false;
                let sized = cap(|| Arc::new(Tracked::<6>::new(3)));
                let mut thin: Th = cap(|| ThinArc::from_header_and_iter(Tracked::<12>::new(1), Script::new(vec![Tracked::<6>::new(10), Tracked::<6>::new(11)], Regime::Exact)));
                let off = cap(|| Arc::into_raw_offset(sized.clone()));
                let spare: Th = cap(|| ThinArc::from_header_and_iter(Tracked::<12>::new(2), Script::new(vec![Tracked::<6>::new(20)], Regime::Exact)));
                let spare_block = spare.heap_ptr() as usize;
                let spare2 = cap(|| spare.clone());
                let orig_block = thin.heap_ptr() as usize;
                let r = catch(|| {
                    cap(|| match api {
                        "ThinArc::with_arc" => thin.with_arc(|a| {
                            if *beh == "clone_out" {
                                std::mem::forget(a.clone());
                                expect_owners += 1;
                            }
                            if panics {
                                panic!("callback panic")
                            }
                        }),
                        "OffsetArc::with_arc" => off.with_arc(|a| {
                            if *beh == "clone_out" {
                                std::mem::forget(a.clone());
                                expect_owners += 1;
                            }
                            if panics {
                                panic!("callback panic")
                            }
                        }),
                        "ArcBorrow::with_arc" => sized.borrow_arc().with_arc(|a| {
                            if *beh == "clone_out" {
                                std::mem::forget(a.clone());
                                expect_owners += 1;
                            }
                            if panics {
                                panic!("callback panic")
                            }
                        }),
                        "Arc::with_raw_offset_arc" => sized.with_raw_offset_arc(|o| {
                            if *beh == "clone_out" {
                                std::mem::forget(o.clone());
                                expect_owners += 1;
                            }
                            if panics {
                                panic!("callback panic")
                            }
                        }),
                        _ => thin.with_arc_mut(|a| {
                            match *beh {
                                "write" => {
                                    Arc::get_mut(a).unwrap().slice_mut()[0].set_val(99);
                                }
                                "clone_out" => {
                                    std::mem::forget(a.clone());
                                    expect_owners += 1;
                                }
                                "replace" | "replace_shared" => {
                                    // `spare2` goes in; the old allocation loses this owner
                                    let newer = Arc::protected_from_thin(ThinArc::clone(&spare));
                                    *a = newer;
                                    replaced = true;
                                }
                                "make_unique_none" => {
                                    let _ = Arc::get_unique(a);
                                }
                                _ => {}
                            }
                            if panics {
                                panic!("callback panic")
                            }
                        }),
                    })
                });
                g.case(format!("closure|{}|{}|{}", api, beh, panics), || format!("{} -> {}", case, if r.is_err() { "panic" } else { "ok" }));
                if r.is_err() != panics {
                    g.fail("unexpected-outcome", &case, format!("panicked={}", r.is_err()));
                }
                // counts and validity afterwards
                let sized_owners = 2 + if api != "ThinArc::with_arc" && api != "ThinArc::with_arc_mut" { expect_owners - 1 } else { 0 };
                if Arc::count(&sized) != sized_owners || OffsetArc::strong_count(&off) != sized_owners || !sized.peek().intact() {
                    g.fail("count-wrong", &case, format!("Arc count {} / OffsetArc count {} after the call, expected {}", Arc::count(&sized), OffsetArc::strong_count(&off), sized_owners));
                }
                if api.starts_with("ThinArc") {
                    let now_block = thin.heap_ptr() as usize;
                    if replaced {
                        if now_block != spare_block {
                            g.fail("replace-lost", &case, format!("the callback replaced the Arc, yet the ThinArc points to {:#x} (replacement is {:#x}, original {:#x})", now_block, spare_block, orig_block));
                        }
                        if ThinArc::strong_count(&thin) != 3 {
                            g.fail("count-wrong", &case, format!("replacement allocation count {} (expected 3: spare, spare2, the ThinArc)", ThinArc::strong_count(&thin)));
                        }
                        if !arena::is_freed(orig_block) {
                            g.fail("old-not-released", &case, "the replaced allocation (sole owner was the ThinArc) was not released".into());
                        }
                    } else {
                        if now_block != orig_block {
                            g.fail("thin-moved", &case, "ThinArc points elsewhere although the callback did not replace the Arc".into());
                        }
                        if ThinArc::strong_count(&thin) != expect_owners {
                            g.fail("count-wrong", &case, format!("ThinArc count {} expected {}", ThinArc::strong_count(&thin), expect_owners));
                        }
                    }
                    let ok = thin.header.header.peek().intact() && thin.slice.iter().all(|e| e.peek().intact()) && thin.header.length == thin.slice.len();
                    if !ok {
                        g.fail("survivor-invalid", &case, "ThinArc contents not intact after the call".into());
                    }
                    if *beh == "write" && thin.slice[0].val() != 99 {
                        g.fail("write-lost", &case, "write through get_mut inside with_arc_mut not visible".into());
                    }
                }
                // release everything, including the forgotten clones
                cap(|| {
                    if api.starts_with("ThinArc") && !replaced {
                        for _ in 1..expect_owners {
                            drop(unsafe { Th::from_raw(thin.as_ptr()) });
                        }
                    } else if !api.starts_with("ThinArc") {
                        for _ in 1..expect_owners {
                            drop(unsafe { Arc::from_raw(sized.as_ptr()) });
                        }
                    }
                    drop(thin);
                    drop(spare);
                    drop(spare2);
                    drop(off);
                    drop(sized);
                });
                after(g, &case, d0, 0, false);
                if !arena::live_blocks().is_empty() {
                    g.fail("leak", &case, format!("{:?}", arena::live_blocks()));
                }
            }
        }
    }
}

// ---------------------------------------------------------------- comparison / hash / format panics
fn cmp_faults(g: &mut Grid) {
    type Th = ThinArc<Tracked<12>, Tracked<6>>;
    let ops = ["eq", "ne", "lt", "cmp", "partial_cmp", "hash", "debug"];
    for kind in ["Arc", "OffsetArc", "ThinArc", "ArcUnion", "Arc<HeaderSlice>", "ArcBorrow"] {
        for op in ops {
            if kind == "OffsetArc" && !matches!(op, "eq" | "ne" | "debug") {
                continue;
            }
            if kind == "ArcUnion" && !matches!(op, "eq" | "debug") {
                continue;
            }
            if kind == "ArcBorrow" && !matches!(op, "eq" | "debug") {
                continue;
            }
            let mut k = 0usize;
            loop {
                vrt::begin_execution();
                let a = cap(|| Arc::new(Tracked::<6>::new(1)));
                let b = cap(|| Arc::new(Tracked::<6>::new(1)));
                let mk = |h: u32| -> Th { cap(|| ThinArc::from_header_and_iter(Tracked::<12>::new(h), Script::new(vec![Tracked::<6>::new(1), Tracked::<6>::new(2)], Regime::Exact))) };
                let (ta, tb) = (mk(4), mk(4));
                let (fa, fb) = (cap(|| Arc::from_thin(ta.clone())), cap(|| Arc::from_thin(tb.clone())));
                let (oa, ob) = (cap(|| Arc::into_raw_offset(a.clone())), cap(|| Arc::into_raw_offset(b.clone())));
                let (ua, ub): (ArcUnion<Tracked<6>, u8>, ArcUnion<Tracked<6>, u8>) = (cap(|| ArcUnion::from_first(a.clone())), cap(|| ArcUnion::from_first(b.clone())));
                let d0 = track::n_drops();
                track::arm_cmp_panic(k);
                let r = catch(|| {
                    let mut h = DefaultHasher::new();
                    match (kind, op) {
                        ("Arc", "eq") => drop(a == b),
                        ("Arc", "ne") => drop(a != b),
                        ("Arc", "lt") => drop(a < b),
                        ("Arc", "cmp") => drop(a.cmp(&b)),
                        ("Arc", "partial_cmp") => drop(a.partial_cmp(&b)),
                        ("Arc", "hash") => a.hash(&mut h),
                        ("Arc", "debug") => drop(format!("{:?}{}", a, a)),
                        ("OffsetArc", "eq") => drop(oa == ob),
                        ("OffsetArc", "ne") => drop(oa != ob),
                        ("OffsetArc", "debug") => drop(format!("{:?}", oa)),
                        ("ThinArc", "eq") => drop(ta == tb),
                        ("ThinArc", "ne") => drop(ta != tb),
                        ("ThinArc", "lt") => drop(ta < tb),
                        ("ThinArc", "cmp") => drop(ta.cmp(&tb)),
                        ("ThinArc", "partial_cmp") => drop(ta.partial_cmp(&tb)),
                        ("ThinArc", "hash") => ta.hash(&mut h),
                        ("ThinArc", "debug") => drop(format!("{:?}", ta)),
                        ("Arc<HeaderSlice>", "eq") => drop(fa == fb),
                        ("Arc<HeaderSlice>", "ne") => drop(fa != fb),
                        ("Arc<HeaderSlice>", "lt") => drop(fa < fb),
                        ("Arc<HeaderSlice>", "cmp") => drop(fa.cmp(&fb)),
                        ("Arc<HeaderSlice>", "partial_cmp") => drop(fa.partial_cmp(&fb)),
                        ("Arc<HeaderSlice>", "hash") => fa.hash(&mut h),
                        ("Arc<HeaderSlice>", "debug") => drop(format!("{:?}", fa)),
                        ("ArcUnion", "eq") => drop(ua == ub),
                        ("ArcUnion", "debug") => drop(format!("{:?}", ua)),
                        ("ArcBorrow", "eq") => drop(a.borrow_arc() == b.borrow_arc()),
                        ("ArcBorrow", "debug") => drop(format!("{:?}", a.borrow_arc())),
                        _ => unreachable!(),
                    }
                });
                let calls = track::cmp_calls();
                track::arm_cmp_panic(0);
                let case = format!("{} {} panic_at_payload_callback={}", kind, op, k);
                g.case(format!("cmp|{}|{}|{}", kind, op, if r.is_err() { "panic" } else { "ok" }), || format!("{} -> {} after {} payload callbacks", case, if r.is_err() { "panic" } else { "ok" }, calls));
                let counts = [Arc::count(&a), Arc::count(&b), ThinArc::strong_count(&ta), ThinArc::strong_count(&tb), OffsetArc::strong_count(&oa), ArcUnion::strong_count(&ua), Arc::count(&fa)];
                if counts != [3, 3, 2, 2, 3, 3, 2] {
                    g.fail("count-wrong", &case, format!("counts after the call {:?}, expected [3,3,2,2,3,3,2]", counts));
                }
                if !track::drops_since(d0).is_empty() {
                    g.fail("dropped", &case, format!("comparison destroyed values: {:?}", track::drops_since(d0)));
                }
                if !(a.peek().intact() && ta.slice[1].peek().intact() && fa.header.header.peek().intact()) {
                    g.fail("survivor-invalid", &case, "handles not intact after the call".into());
                }
                cap(|| {
                    drop((a, b, ta, tb, fa, fb, oa, ob, ua, ub));
                });
                after(g, &case, d0, 0, false);
                if !arena::live_blocks().is_empty() {
                    g.fail("leak", &case, format!("{:?}", arena::live_blocks()));
                }
                if r.is_ok() && k > 0 {
                    break; // k = calls + 1 reached: no panic point left
                }
                k += 1;
                if k > 40 {
                    break;
                }
            }
        }
    }
}

// ---------------------------------------------------------------- panicking destructors
/// The last handle is released while the k-th payload destructor panics: the panic propagates,
/// every value is still destroyed exactly once and the block still goes back to the allocator.
fn drop_faults(g: &mut Grid) {
    type Th = ThinArc<Tracked<12>, Tracked<6>>;
    for kind in ["Arc<T>", "Arc<[T;3]>", "Arc<HeaderSlice<H,[T;2]>>", "ThinArc<H,T;2>", "OffsetArc<T>", "ArcUnion(first)", "ArcUnion(second)", "UniqueArc<T>", "Arc<dyn>", "try_unwrap then drop value"] {
        let nvals = match kind {
            "Arc<[T;3]>" | "Arc<HeaderSlice<H,[T;2]>>" | "ThinArc<H,T;2>" => 3,
            _ => 1,
        };
        for k in 0..=nvals {
            for shared_first in [false, true] {
                let case = format!("last release of {} with the destructor of value #{} panicking{}", kind, k, if shared_first { " (after a co-owner was released normally)" } else { "" });
                vrt::begin_execution();
                g.case(format!("droppanic|{}|{}|{}", kind, k, shared_first), || case.clone());
                let mk3 = || Script::new(vec![Tracked::<6>::new(1), Tracked::<6>::new(2)], Regime::Exact);
                trait Any2 {}
                impl Any2 for Tracked<6> {}
                enum B {
                    A(Arc<Tracked<6>>),
                    S(Arc<[Tracked<6>]>),
                    F(Arc<HeaderSlice<Tracked<12>, [Tracked<6>]>>),
                    T(Th),
                    O(OffsetArc<Tracked<6>>),
                    U1(ArcUnion<Tracked<6>, u8>),
                    U2(ArcUnion<u8, Tracked<6>>),
                    X(UniqueArc<Tracked<6>>),
                    D(Arc<dyn Any2>),
                }
                let h = cap(|| match kind {
                    "Arc<T>" | "try_unwrap then drop value" => B::A(Arc::new(Tracked::new(1))),
                    "Arc<[T;3]>" => B::S(Arc::from(vec![Tracked::new(1), Tracked::new(2), Tracked::new(3)])),
                    "Arc<HeaderSlice<H,[T;2]>>" => B::F(Arc::from_header_and_iter(Tracked::new(0), mk3())),
                    "ThinArc<H,T;2>" => B::T(ThinArc::from_header_and_iter(Tracked::new(0), mk3())),
                    "OffsetArc<T>" => B::O(Arc::into_raw_offset(Arc::new(Tracked::new(1)))),
                    "ArcUnion(first)" => B::U1(ArcUnion::from_first(Arc::new(Tracked::new(1)))),
                    "ArcUnion(second)" => B::U2(ArcUnion::from_second(Arc::new(Tracked::new(1)))),
                    "UniqueArc<T>" => B::X(UniqueArc::new(Tracked::new(1))),
                    _ => B::D(unsafe { Arc::from_raw(Arc::into_raw(Arc::new(Tracked::<6>::new(1))) as *const dyn Any2) }),
                });
                if shared_first {
                    cap(|| match &h {
                        B::A(x) => drop(x.clone()),
                        B::S(x) => drop(x.clone()),
                        B::F(x) => drop(x.clone()),
                        B::T(x) => drop(x.clone()),
                        B::O(x) => drop(x.clone()),
                        B::U1(x) => drop(x.clone()),
                        B::U2(x) => drop(x.clone()),
                        B::D(x) => drop(x.clone()),
                        B::X(_) => {}
                    });
                }
                let created = track::next_id_peek() - 1;
                track::arm_drop_panic(k);
                let r = catch(|| {
                    cap(|| match h {
                        B::A(x) if kind == "try_unwrap then drop value" => drop(Arc::try_unwrap(x).ok().expect("sole owner")),
                        other => drop(other),
                    })
                });
                track::arm_drop_panic(0);
                if r.is_err() != (k != 0) {
                    g.fail("unexpected-outcome", &case, format!("panicked={} (armed destructor #{})", r.is_err(), k));
                }
                let mut d = track::drops_since(0);
                d.sort();
                let before = d.len();
                d.dedup();
                if d.len() != before {
                    g.fail("double-drop", &case, format!("a value was destroyed more than once: {:?}", track::drops_since(0)));
                }
                if d.len() != created as usize {
                    g.fail("not-destroyed", &case, format!("{} values were created, {} destroyed: a panicking destructor must not stop the others from running", created, d.len()));
                }
                let live = arena::live_blocks();
                if !live.is_empty() {
                    g.fail("leak-after-drop-panic", &case, format!("the allocation was not returned although its last handle is gone: {:?}", live));
                }
                for e in arena::errors_since(0) {
                    g.fail("allocator-error", &case, format!("{:?}", e));
                }
                for p in track::perr_since(0) {
                    g.fail("poison-access", &case, p);
                }
            }
        }
    }
}

// ---------------------------------------------------------------- allocation failure (child processes)
const ALLOC_CTORS: &[&str] = &["Arc::new", "Arc::from(Box)", "from_header_and_iter", "from_header_and_slice", "from_header_and_vec", "ThinArc::from_header_and_iter", "Arc<[T]>::from(Vec)", "from_iter_inexact", "from_iter_exact", "new_uninit", "new_uninit_slice", "UniqueArc::new_uninit", "from_header_and_str", "Arc<str>::from(String)", "make_mut_shared", "unwrap_or_clone_shared", "from_header_and_uninit_slice"];

fn alloc_ctor(name: &str) {
    let items = || (0..3u32).map(EB::make);
    match name {
        "Arc::new" => drop(Arc::new(EB::make(0))),
        "Arc::from(Box)" => drop(Arc::<EB>::from(Box::new(EB::make(0)))),
        "from_header_and_iter" => drop(Arc::from_header_and_iter(7u8, items())),
        "from_header_and_slice" => drop(Arc::from_header_and_slice(7u8, &[1u64, 2, 3])),
        "from_header_and_vec" => drop(Arc::from_header_and_vec(7u8, items().collect::<Vec<_>>())),
        "ThinArc::from_header_and_iter" => drop(ThinArc::from_header_and_iter(7u8, items())),
        "Arc<[T]>::from(Vec)" => drop(Arc::<[EB]>::from(items().collect::<Vec<_>>())),
        "from_iter_inexact" => drop(items().filter(|_| true).collect::<Arc<[EB]>>()),
        "from_iter_exact" => drop(items().collect::<Arc<[EB]>>()),
        "new_uninit" => drop(Arc::<std::mem::MaybeUninit<u64>>::new_uninit()),
        "new_uninit_slice" => drop(Arc::<[std::mem::MaybeUninit<u64>]>::new_uninit_slice(4)),
        "UniqueArc::new_uninit" => drop(UniqueArc::<u64>::new_uninit()),
        "from_header_and_str" => drop(Arc::from_header_and_str(7u8, "héllo")),
        "Arc<str>::from(String)" => drop(Arc::<str>::from(String::from("héllo"))),
        "make_mut_shared" => {
            let mut a = Arc::new(Tracked::<6>::new(1));
            let b = a.clone();
            Arc::make_mut(&mut a).set_val(2);
            drop((a, b))
        }
        "unwrap_or_clone_shared" => {
            let a = Arc::new(Tracked::<6>::new(1));
            let b = a.clone();
            drop(Arc::unwrap_or_clone(a));
            drop(b)
        }
        "from_header_and_uninit_slice" => drop(UniqueArc::<HeaderSlice<u8, [std::mem::MaybeUninit<u64>]>>::from_header_and_uninit_slice(1, 3)),
        _ => panic!("unknown ctor"),
    }
}

pub fn child_allocfail(args: &[String]) {
    let name = crate::arg(args, "--ctor").unwrap();
    let k: usize = crate::arg(args, "--k").unwrap().parse().unwrap();
    vrt::begin_execution();
    arena::set_refusal_fd(1);
    if k == 0 {
        cap(|| alloc_ctor(&name));
        println!("ALLOCS {}", arena::inwin_allocs());
        return;
    }
    arena::set_fail_at(k);
    let r = catch(|| cap(|| alloc_ctor(&name)));
    match r {
        Ok(()) => println!("SURVIVED errors={:?} perr={:?}", arena::errors_since(0), track::perr_since(0)),
        Err(m) => println!("PANIC {}", m.lines().next().unwrap_or("")),
    }
}

fn alloc_faults(g: &mut Grid) {
    vrt::crash::idle(); // waits on child processes, not on a cell
    use std::os::unix::process::ExitStatusExt;
    use std::process::Command;
    let exe = std::env::current_exe().unwrap();
    let run = |ctor: &str, k: usize| {
        let o = Command::new(&exe).args(["--child", "c07alloc", "--ctor", ctor, "--k", &k.to_string()]).output().unwrap();
        (String::from_utf8_lossy(&o.stdout).to_string(), o.status.code().unwrap_or_else(|| -o.status.signal().unwrap_or(0)))
    };
    let mut jobs = vec![];
    for c in ALLOC_CTORS {
        let (out, code) = run(c, 0);
        let m: usize = out.lines().find_map(|l| l.strip_prefix("ALLOCS ")).and_then(|s| s.trim().parse().ok()).unwrap_or(0);
        if code < 0 {
            g.fail("allocfail-baseline-crash", c, format!("the constructor crashed (signal {}) in a child process without any injected fault", -code));
            continue;
        }
        if code != 0 || m == 0 {
            g.fail("machinery:alloc-count", c, format!("fault-free child failed: rc {} out {:?}", code, out));
            continue;
        }
        for k in 1..=m {
            jobs.push((*c, k, m));
        }
    }
    let results: Vec<(usize, String, i32)> = {
        let next = std::sync::atomic::AtomicUsize::new(0);
        let out = std::sync::Mutex::new(vec![]);
        vrt::crash::idle(); // waiting on child processes is not a hang
        std::thread::scope(|s| {
            for _ in 0..16 {
                s.spawn(|| loop {
                    let i = next.fetch_add(1, std::sync::atomic::Ordering::Relaxed);
                    if i >= jobs.len() {
                        break;
                    }
                    let (o, c) = run(jobs[i].0, jobs[i].1);
                    out.lock().unwrap().push((i, o, c));
                });
            }
        });
        let mut v = out.into_inner().unwrap();
        v.sort();
        v
    };
    for (i, out, code) in results {
        let (c, k, m) = jobs[i];
        let case = format!("allocation failure: {} with allocation {} of {} refused", c, k, m);
        let refused = out.contains("REFUSED");
        let outcome = if code == -6 || code == 134 {
            "alloc-error-abort"
        } else if out.contains("PANIC") && code == 0 {
            "panic"
        } else if out.contains("SURVIVED") {
            "survived"
        } else {
            "crash"
        };
        g.case(format!("allocfail|{}|{}", c, outcome), || format!("{} -> {}", case, outcome));
        if !refused {
            g.fail("machinery:no-refusal", &case, format!("the child never hit the armed allocation: {:?}", out));
        }
        match outcome {
            "alloc-error-abort" | "panic" => {}
            "survived" => g.fail("allocfail-survived", &case, format!("the call returned although an allocation it requested was refused (it must end in the allocation-error abort): {}", out.trim())),
            _ => g.fail("allocfail-crash", &case, format!("process ended with {} (not the allocation-error abort): a refused allocation was written through; stdout {:?}", code, out)),
        }
    }
}

pub fn run(tier: &str) -> Vec<Grid> {
    let thorough = tier == "thorough";
    let mut a = Grid::new("c07.iter", "iterator-driven constructors x size_hint regime x element class x { panic at each k-th callback (k=1..calls+1) ; every (reported, actual) length with |diff|<=2, reported 0..=4 ; every changing-hint script of 3 answers over a small set }");
    iter_faults::<ET>(&mut a, thorough);
    iter_faults::<EB>(&mut a, thorough);
    iter_faults::<E2>(&mut a, thorough);
    iter_faults_big::<ET>(&mut a, thorough);
    iter_faults_big::<E2>(&mut a, thorough);
    let mut b = Grid::new("c07.clone", "make_mut / make_unique / unwrap_or_clone / OffsetArc::make_mut x co-owner kind x armed Clone panic (k = 1, 2)");
    clone_faults(&mut b);
    clone_faults_big(&mut b);
    let mut c = Grid::new("c07.closure", "with_arc (ThinArc, OffsetArc, ArcBorrow), with_raw_offset_arc, with_arc_mut x callback behaviour x {return, panic}");
    closure_faults(&mut c);
    let mut d = Grid::new("c07.cmp", "PartialEq / PartialOrd / Ord / Hash / Debug / Display of the payload panicking at each k-th call, through every handle kind");
    cmp_faults(&mut d);
    let mut dp = Grid::new("c07.drop", "last release through every handle kind x the k-th payload destructor panicking (k = 0..=values): the panic propagates once, every value is still destroyed exactly once, the allocation is still returned");
    drop_faults(&mut dp);
    let mut e = Grid::new("c07.alloc", "each constructor with each of its in-window allocations refused, one child process per (constructor, k)");
    alloc_faults(&mut e);
    let mut re = Grid::new("c07.reentrant", "make_mut / make_unique / OffsetArc::make_mut / unwrap_or_clone x 1-2 co-owners of every kind x every subset of them released by the payload's own Clone x Clone adds an owner x Clone panics x the first destructor to run panics; with_arc_mut callback replacing the Arc x how x shared x k-th destructor of the old value panicking");
    crate::c07r::reentrant_faults(&mut re);
    crate::c07r::replace_drop_panic(&mut re);
    #[allow(unused_mut)]
    let mut all = vec![a, b, c, d, dp, re, e, crate::c06::unwinding_grid()];
    // the serde impls run user code too: panicking serializer / deserializer callbacks
    #[cfg(feature = "cfg_default")]
    all.push(crate::c17::panic_grid());
    all
}
