//! C11: raw pointers round-trip to the same allocation; handles are one word wide.
use crate::grid::Grid;
use crate::shapes::*;
use crate::{for_each_shape, for_pairs};
use std::mem::{size_of, transmute_copy};
use triomphe::{Arc, ArcBorrow, ArcUnion, ArcUnionBorrow, HeaderSlice, HeaderWithLength, OffsetArc, ThinArc, UniqueArc};
use vrt::arena::{self, cap};

pub trait Tr {
    fn sz(&self) -> usize;
    fn good(&self, id: u32) -> bool;
}
impl<S: Shape> Tr for S {
    fn sz(&self) -> usize {
        size_of::<S>()
    }
    fn good(&self, id: u32) -> bool {
        self.ok(id)
    }
}

fn block_start() -> usize {
    arena::live_blocks().last().map(|b| b.0).unwrap_or(0)
}

macro_rules! expect {
    ($g:expr, $case:expr, $code:expr, $cond:expr, $($fmt:tt)*) => {
        if !$cond {
            $g.fail($code, $case, format!($($fmt)*));
        }
    };
}

pub fn sized<T: Shape>(g: &mut Grid) {
    for pairing in ["into_raw/from_raw", "as_ptr+ArcBorrow::from_ptr", "into_raw_offset/from_raw_offset", "dyn cast", "refcnt", "union"] {
        if pairing == "refcnt" && !cfg!(feature = "cfg_all") {
            continue;
        }
        let case = format!("Arc<{}> {}", T::NAME, pairing);
        vrt::begin_execution();
        g.case(format!("sized|{}|{}", T::NAME, pairing), || case.clone());
        let a = cap(|| Arc::new(T::make(7)));
        let blk = block_start();
        let deref = &*a as *const T as usize;
        expect!(g, &case, "heap-ptr", a.heap_ptr() as usize == blk, "heap_ptr {:#x} but the allocator handed out {:#x}", a.heap_ptr() as usize, blk);
        expect!(g, &case, "as-ptr", a.as_ptr() as usize == deref, "as_ptr {:#x} != Deref address {:#x}", a.as_ptr() as usize, deref);
        // identical across clones and moves
        let c = cap(|| a.clone());
        let moved = vec![c];
        expect!(g, &case, "as-ptr-clone", moved[0].as_ptr() as usize == deref && moved[0].heap_ptr() as usize == blk, "clone / moved handle reports a different address");
        let b = a.borrow_arc();
        expect!(g, &case, "borrow-bits", unsafe { transmute_copy::<ArcBorrow<T>, usize>(&b) } == deref, "ArcBorrow bit pattern is not the value's address");
        match pairing {
            "into_raw/from_raw" => {
                let p = cap(|| Arc::into_raw(a));
                expect!(g, &case, "into-raw", p as usize == deref, "into_raw {:#x} != Deref address {:#x}", p as usize, deref);
                let r = cap(|| unsafe { Arc::from_raw(p) });
                expect!(g, &case, "from-raw", r.heap_ptr() as usize == blk && r.ok(7) && Arc::count(&r) == 2, "from_raw gave block {:#x} count {} intact {}", r.heap_ptr() as usize, Arc::count(&r), r.ok(7));
                cap(|| drop(r));
            }
            "as_ptr+ArcBorrow::from_ptr" => {
                let bb = unsafe { ArcBorrow::from_ptr(a.as_ptr()) };
                let r = cap(|| bb.clone_arc());
                expect!(g, &case, "from-ptr", r.heap_ptr() as usize == blk && r.ok(7) && Arc::count(&r) == 3 && bb.get() as *const T as usize == deref, "ArcBorrow::from_ptr(as_ptr).clone_arc() is not the same allocation");
                bb.with_arc(|t| expect!(g, &case, "from-ptr", t.heap_ptr() as usize == blk, "with_arc sees another block"));
                cap(|| drop((r, a)));
            }
            "into_raw_offset/from_raw_offset" => {
                let o: OffsetArc<T> = cap(|| Arc::into_raw_offset(a));
                expect!(g, &case, "offset-bits", unsafe { transmute_copy::<OffsetArc<T>, usize>(&o) } == deref && &*o as *const T as usize == deref, "OffsetArc bit pattern / Deref is not the value's address");
                let r = cap(|| Arc::from_raw_offset(o));
                expect!(g, &case, "from-raw-offset", r.heap_ptr() as usize == blk && r.ok(7) && Arc::count(&r) == 2, "from_raw_offset is not the same allocation");
                cap(|| drop(r));
            }
            "dyn cast" => {
                let p = cap(|| Arc::into_raw(a)) as *const dyn Tr;
                let d: Arc<dyn Tr> = cap(|| unsafe { Arc::from_raw(p) });
                expect!(g, &case, "dyn-from-raw", d.heap_ptr() as usize == blk && d.good(7) && Arc::count(&d) == 2 && d.as_ptr() as *const () as usize == deref, "from_raw of the trait-object pointer: block {:#x} (want {:#x}) count {} intact {} as_ptr {:#x}", d.heap_ptr() as usize, blk, Arc::count(&d), d.good(7), d.as_ptr() as *const () as usize);
                let p2 = cap(|| Arc::into_raw(d));
                expect!(g, &case, "dyn-into-raw", p2 as *const () as usize == deref, "into_raw of Arc<dyn> != value address");
                cap(|| drop(unsafe { Arc::<dyn Tr>::from_raw(p2) }));
            }
            #[cfg(feature = "cfg_all")]
            "refcnt" => {
                use arc_swap::RefCnt;
                expect!(g, &case, "refcnt-as-ptr", <Arc<T> as RefCnt>::as_ptr(&a) as usize == deref, "RefCnt::as_ptr != value address");
                let p = cap(|| <Arc<T> as RefCnt>::into_ptr(a));
                expect!(g, &case, "refcnt-into-ptr", p as usize == deref, "RefCnt::into_ptr != value address");
                let r = cap(|| unsafe { <Arc<T> as RefCnt>::from_ptr(p) });
                expect!(g, &case, "refcnt-from-ptr", r.heap_ptr() as usize == blk && r.ok(7) && Arc::count(&r) == 2, "RefCnt::from_ptr is not the same allocation");
                cap(|| drop(r));
            }
            "union" => {
                let u1: ArcUnion<T, S3a1> = cap(|| ArcUnion::from_first(a.clone()));
                let u2: ArcUnion<S64a64, T> = cap(|| ArcUnion::from_second(a));
                let p1 = match u1.borrow() {
                    ArcUnionBorrow::First(b) => b.get() as *const T as usize,
                    _ => 0,
                };
                let p2 = match u2.borrow() {
                    ArcUnionBorrow::Second(b) => b.get() as *const T as usize,
                    _ => 0,
                };
                expect!(g, &case, "union-addr", p1 == deref && p2 == deref, "ArcUnion borrow addresses {:#x}/{:#x} != {:#x}", p1, p2, deref);
                cap(|| drop((u1, u2)));
            }
            _ => unreachable!(),
        }
        cap(|| drop(moved));
        if !arena::live_blocks().is_empty() || arena::n_errors() != 0 {
            g.fail("release", &case, format!("after the round trip: live {:?} errors {:?}", arena::live_blocks(), arena::errors_since(0)));
        }
    }
}

pub fn slices<T: Shape>(g: &mut Grid) {
    for n in [0usize, 1, 2, 3, 7] {
        let case = format!("Arc<[{};{}]> into_raw/from_raw_slice", T::NAME, n);
        vrt::begin_execution();
        g.case(format!("slice|{}|{}", T::NAME, n.min(3)), || case.clone());
        let v: Vec<T> = (0..n).map(|i| T::make(i as u32)).collect();
        let a: Arc<[T]> = cap(|| Arc::from(v));
        let blk = block_start();
        let deref = (*a).as_ptr() as usize;
        expect!(g, &case, "as-ptr", a.as_ptr() as *const T as usize == deref && a.heap_ptr() as usize == blk, "as_ptr/heap_ptr of slice Arc wrong");
        let c = cap(|| a.clone());
        let p = cap(|| Arc::into_raw(a));
        expect!(g, &case, "into-raw", p as *const T as usize == deref && unsafe { (&(*p)).len() } == n, "into_raw of slice Arc: {:#x} len {}", p as *const T as usize, unsafe { (&(*p)).len() });
        let r = cap(|| unsafe { Arc::from_raw_slice(p) });
        expect!(g, &case, "from-raw", r.heap_ptr() as usize == blk && r.len() == n && r.iter().enumerate().all(|(i, e)| e.ok(i as u32)) && Arc::count(&r) == 2, "from_raw_slice is not the same allocation / contents");
        let p2 = cap(|| Arc::into_raw(r));
        let r2 = cap(|| unsafe { Arc::from_raw(p2) });
        expect!(g, &case, "from-raw", r2.heap_ptr() as usize == blk && r2.len() == n, "from_raw (unsized) is not the same allocation");
        cap(|| drop((r2, c)));
        if !arena::live_blocks().is_empty() || arena::n_errors() != 0 {
            g.fail("release", &case, format!("live {:?} errors {:?}", arena::live_blocks(), arena::errors_since(0)));
        }
    }
}

pub fn thin<H: Shape, T: Shape>(g: &mut Grid) {
    if size_of::<T>() == 0 {
        return;
    }
    for n in [0usize, 1, 3] {
        for pairing in ["thin raw", "fat raw", "refcnt"] {
            if pairing == "refcnt" && !cfg!(feature = "cfg_all") {
                continue;
            }
            let case = format!("ThinArc<{},{};{}> {}", H::NAME, T::NAME, n, pairing);
            vrt::begin_execution();
            g.case(format!("thin|{}|{}|{}|{}", H::NAME, T::NAME, n.min(2), pairing), || case.clone());
            let t: ThinArc<H, T> = cap(|| ThinArc::from_header_and_iter(H::make(1), (0..n).map(|i| T::make(i as u32 + 2))));
            let blk = block_start();
            let deref = &*t as *const HeaderSlice<HeaderWithLength<H>, [T]> as *const u8 as usize;
            expect!(g, &case, "heap-ptr", t.heap_ptr() as usize == blk && t.ptr() as usize == blk, "ThinArc::heap_ptr/ptr != block start");
            let good = |x: &ThinArc<H, T>| x.header.header.ok(1) && x.slice.len() == n && x.slice.iter().enumerate().all(|(i, e)| e.ok(i as u32 + 2));
            match pairing {
                "thin raw" => {
                    let ap = t.as_ptr() as usize;
                    let c = cap(|| t.clone());
                    expect!(g, &case, "thin-as-ptr-stable", c.as_ptr() as usize == ap, "as_ptr differs across clones");
                    // the statement: as_ptr / into_raw return the address at which the value lives
                    expect!(g, &case, "thin-as-ptr-not-value-address", ap == deref, "ThinArc::as_ptr returns {:#x}; the value (what Deref yields) lives at {:#x} (block start {:#x})", ap, deref, blk);
                    let p = cap(|| t.into_raw());
                    expect!(g, &case, "thin-into-raw-not-value-address", p as usize == deref, "ThinArc::into_raw returns {:#x}; the value lives at {:#x}", p as usize, deref);
                    expect!(g, &case, "thin-into-raw-vs-as-ptr", p as usize == ap, "into_raw != as_ptr");
                    let r = cap(|| unsafe { ThinArc::<H, T>::from_raw(p) });
                    expect!(g, &case, "thin-from-raw", r.heap_ptr() as usize == blk && good(&r) && ThinArc::strong_count(&r) == 2, "ThinArc::from_raw is not the same allocation / contents / count");
                    cap(|| drop((r, c)));
                }
                "fat raw" => {
                    let f = cap(|| Arc::from_thin(t));
                    let fd = &*f as *const HeaderSlice<HeaderWithLength<H>, [T]> as *const u8 as usize;
                    expect!(g, &case, "fat-same-address", fd == deref && f.heap_ptr() as usize == blk, "thin->fat changed the address");
                    let p = cap(|| Arc::into_raw(f));
                    expect!(g, &case, "into-raw", p as *const u8 as usize == deref, "into_raw of the fat Arc != Deref address");
                    let r = cap(|| unsafe { Arc::from_raw(p) });
                    let t2 = cap(|| Arc::into_thin(r));
                    expect!(g, &case, "from-raw", t2.heap_ptr() as usize == blk && good(&t2) && ThinArc::strong_count(&t2) == 1, "fat from_raw -> thin is not the same allocation");
                    cap(|| drop(t2));
                }
                #[cfg(feature = "cfg_all")]
                "refcnt" => {
                    use arc_swap::RefCnt;
                    let ap = <ThinArc<H, T> as RefCnt>::as_ptr(&t) as usize;
                    expect!(g, &case, "thin-refcnt-as-ptr-not-value-address", ap == deref, "RefCnt::as_ptr for ThinArc returns {:#x}; the value lives at {:#x}", ap, deref);
                    let p = cap(|| <ThinArc<H, T> as RefCnt>::into_ptr(t));
                    expect!(g, &case, "thin-refcnt-into-ptr-not-value-address", p as usize == deref, "RefCnt::into_ptr for ThinArc returns {:#x}; the value lives at {:#x}", p as usize, deref);
                    let r = cap(|| unsafe { <ThinArc<H, T> as RefCnt>::from_ptr(p) });
                    expect!(g, &case, "thin-refcnt-from-ptr", r.heap_ptr() as usize == blk && good(&r) && ThinArc::strong_count(&r) == 1, "RefCnt::from_ptr for ThinArc is not the same allocation");
                    cap(|| drop(r));
                }
                _ => unreachable!(),
            }
            if !arena::live_blocks().is_empty() || arena::n_errors() != 0 {
                g.fail("release", &case, format!("live {:?} errors {:?}", arena::live_blocks(), arena::errors_since(0)));
            }
        }
    }
}

fn strs(g: &mut Grid) {
    for s in ["", "a", "héllo", "漢字漢字漢字"] {
        let case = format!("Arc<str> {:?} into_raw/from_raw", s);
        vrt::begin_execution();
        g.case(format!("str|{}", s.len()), || case.clone());
        let a: Arc<str> = cap(|| Arc::from(s));
        let blk = block_start();
        let deref = a.as_bytes().as_ptr() as usize;
        let p = cap(|| Arc::into_raw(a));
        expect!(g, &case, "into-raw", p as *const u8 as usize == deref, "into_raw != Deref address");
        let r: Arc<str> = cap(|| unsafe { Arc::from_raw(p) });
        expect!(g, &case, "from-raw", r.heap_ptr() as usize == blk && &*r == s && Arc::count(&r) == 1, "from_raw str");
        cap(|| drop(r));
        if !arena::live_blocks().is_empty() || arena::n_errors() != 0 {
            g.fail("release", &case, format!("live {:?} errors {:?}", arena::live_blocks(), arena::errors_since(0)));
        }
    }
}

fn size_table(g: &mut Grid) {
    let w = size_of::<usize>();
    macro_rules! row {
        ($t:ty, $words:expr) => {{
            let name = stringify!($t);
            g.case(format!("size|{}", name), || format!("size_of::<{}>() == {} words, Option adds nothing", name, $words));
            if size_of::<$t>() != $words * w {
                g.fail("handle-size", name, format!("size_of = {} bytes, expected {}", size_of::<$t>(), $words * w));
            }
            if size_of::<Option<$t>>() != size_of::<$t>() {
                g.fail("null-niche", name, format!("size_of::<Option<_>>() = {} != {}", size_of::<Option<$t>>(), size_of::<$t>()));
            }
        }};
    }
    row!(Arc<u8>, 1);
    row!(Arc<S64a64>, 1);
    row!(Arc<S0a1>, 1);
    row!(Arc<[u8]>, 2);
    row!(Arc<str>, 2);
    row!(Arc<dyn Tr>, 2);
    row!(Arc<HeaderSlice<u8, [u16]>>, 2);
    row!(ThinArc<u8, u16>, 1);
    row!(ThinArc<S64a64, S3a1>, 1);
    row!(OffsetArc<u8>, 1);
    row!(OffsetArc<S64a64>, 1);
    row!(ArcBorrow<'static, u8>, 1);
    row!(ArcBorrow<'static, [u8]>, 2);
    row!(ArcUnion<u8, S64a64>, 1);
    row!(ArcUnion<S0a1, S0a1>, 1);
    row!(UniqueArc<u8>, 1);
    row!(UniqueArc<[u8]>, 2);
    row!(UniqueArc<dyn Tr>, 2);
}

macro_rules! all_shapes {
    ($m:ident, $f:ident, $args:tt) => {
        $m!($f, $args; [S0a1, S1a1, S3a1, S5a1, S7a1, S9a1, S64a1, S2a2, S6a2, S4a4, S12a4, S8a8, S24a8, S16a16, S48a16, S32a32, S64a64, S0a2, S0a8, S0a16, S0a64])
    };
}
macro_rules! quick_shapes {
    ($m:ident, $f:ident, $args:tt) => {
        $m!($f, $args; [S0a1, S1a1, S3a1, S2a2, S8a8, S24a8, S16a16, S64a64])
    };
}

pub fn run(tier: &str) -> Vec<Grid> {
    let mut g = Grid::new("c11.addresses", "payload shape x handle kind x into/from pairing: pointer handed out == address Deref yields, heap_ptr == block start recorded by the allocator, stable across clones/moves, round trip recovers same block/contents/count and releases cleanly; size/niche table");
    let gr = &mut g;
    all_shapes!(for_each_shape, sized, (gr));
    for_each_shape!(sized, (gr); [S300a1, S258a2, S260a4, S1000a8, S320a64]);
    all_shapes!(for_each_shape, slices, (gr));
    if tier == "thorough" {
        all_shapes!(for_pairs, thin, (gr));
    } else {
        quick_shapes!(for_pairs, thin, (gr));
    }
    strs(gr);
    size_table(gr);
    vec![g]
}
