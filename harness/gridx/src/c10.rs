//! C10 (grid half): `Arc::into_thin` on a publicly built fat Arc for every recorded length versus
//! true length; thin <-> fat round trips keep the allocation and the count.
use crate::for_pairs;
use crate::grid::Grid;
use crate::shapes::*;
use triomphe::{Arc, HeaderWithLength, ThinArc};
use vrt::arena::{self, cap};
use vrt::{catch, rmwlog};

pub fn pair<H: DShape, T: DShape>(g: &mut Grid, maxn: usize) {
    for n in 0..=maxn {
        let mut recs: Vec<usize> = (0..=n + 2).collect();
        recs.push(usize::MAX);
        recs.push(usize::MAX / 2 + 1);
        // lengths that only differ from the true one in high bits (wrap-around of byte arithmetic)
        for k in 56..=63u32 {
            recs.push(n.wrapping_add(1usize << k));
        }
        for rec in recs {
            for shared in [false, true] {
                let case = format!("into_thin: Arc<HeaderSlice<HeaderWithLength<{}>,[{};{}]>> recorded length {} co-owner={}", H::NAME, T::NAME, n, rec, shared);
                vrt::begin_execution();
                g.case(format!("into_thin|{}|{}|{}|{}|{}", H::NAME, T::NAME, n.min(2), if rec == n { "eq" } else if rec < n { "lt" } else { "gt" }, shared), || case.clone());
                let (h0, t0) = (H::drops(), T::drops());
                // from_header_and_vec is the constructor that also accepts zero-sized elements
                let fat = cap(|| {
                    let v: Vec<T> = (0..n).map(|i| T::make(i as u32 + 2)).collect();
                    Arc::from_header_and_vec(HeaderWithLength::new(H::make(1), rec), v)
                });
                let blk = fat.heap_ptr() as usize;
                let co = if shared { Some(cap(|| fat.clone())) } else { None };
                let r0 = rmwlog::len();
                let r = catch(|| cap(|| Arc::into_thin(fat)));
                match r {
                    Ok(thin) => {
                        if rec != n {
                            g.fail("into-thin-accepted-wrong-length", &case, format!("into_thin accepted a recorded length of {} for a slice of {}", rec, n));
                            // such a ThinArc is unusable (its slice length is a lie): do not touch or drop it
                            std::mem::forget(thin);
                            std::mem::forget(co);
                            continue;
                        }
                        if rmwlog::since(r0).iter().any(|a| a.is_rmw()) {
                            g.fail("into-thin-touches-count", &case, "into_thin wrote to the reference count".into());
                        }
                        let ok = thin.heap_ptr() as usize == blk && thin.header.length == n && thin.slice.len() == n && thin.header.header.ok(1) && thin.slice.iter().enumerate().all(|(i, e)| e.ok(i as u32 + 2)) && ThinArc::strong_count(&thin) == 1 + shared as usize;
                        if !ok {
                            g.fail("thin-differs", &case, format!("the ThinArc does not show the fat Arc's allocation/contents/count (block {:#x} vs {:#x}, recorded {}, slice {}, count {})", thin.heap_ptr() as usize, blk, thin.header.length, thin.slice.len(), ThinArc::strong_count(&thin)));
                            // its view of the allocation is wrong: releasing it could walk a bogus slice
                            std::mem::forget(thin);
                            std::mem::forget(co);
                            continue;
                        }
                        // thin -> fat -> thin: same allocation, no counter write
                        let r1 = rmwlog::len();
                        let back = cap(|| Arc::into_thin(Arc::from_thin(thin)));
                        if back.heap_ptr() as usize != blk || rmwlog::since(r1).iter().any(|a| a.is_rmw()) {
                            g.fail("round-trip", &case, "thin -> fat -> thin changed the allocation or wrote to the count".into());
                        }
                        cap(|| drop(back));
                    }
                    Err(m) => {
                        if rec == n {
                            g.fail("into-thin-refused-right-length", &case, format!("into_thin panicked although the recorded length is right: {}", m));
                        }
                    }
                }
                // the Arc passed in has been released properly in either case
                if let Some(c) = &co {
                    if Arc::count(c) != 1 || !c.header.header.ok(1) || c.slice.len() != n || !c.slice.iter().enumerate().all(|(i, e)| e.ok(i as u32 + 2)) {
                        g.fail("co-owner-damaged", &case, format!("after the call the co-owner reports count {} / damaged contents", Arc::count(c)));
                    }
                    if H::drops() != h0 || T::drops() != t0 {
                        g.fail("destroyed-while-owned", &case, "destructors ran although a co-owner is alive".into());
                    }
                }
                cap(|| drop(co));
                let same = std::any::TypeId::of::<H>() == std::any::TypeId::of::<T>();
                let (dh, dt) = (H::drops() - h0, T::drops() - t0);
                let okd = if same { dh == 1 + n } else { dh == 1 && dt == n };
                if !okd || !arena::live_blocks().is_empty() || arena::n_errors() != 0 {
                    g.fail("release-after-into-thin", &case, format!("after everything was dropped: header destructor runs {}, element destructor runs {} (expected 1 and {}), live blocks {:?}, allocator errors {:?}", dh, dt, n, arena::live_blocks(), arena::errors_since(0)));
                }
            }
        }
    }
}

/// every ThinArc obtainable from the safe constructors records the real slice length, whatever an
/// ExactSizeIterator claims (each `len()` answer scripted separately)
fn ctor_scripts(g: &mut Grid) {
    use crate::elems::*;
    let vals = [0usize, 1, 2, 3, 5];
    for &actual in &[0usize, 1, 2, 3] {
        for &a in &vals {
            for &b in &vals {
                for &c in &vals {
                    let case = format!("ThinArc::from_header_and_iter with {} real items and len() answering {:?}", actual, [a, b, c]);
                    vrt::begin_execution();
                    g.case(format!("ctor|{}|{}|{}|{}", actual, a, b, c), || case.clone());
                    let items: Vec<ET> = cap(|| (0..actual).map(|i| ET::make(i as u32)).collect());
                    let mut it = arena::suspend(|| Script::new(Vec::new(), Regime::Exact));
                    it.items = arena::suspend(|| items.into());
                    it.claims = arena::suspend(|| vec![a, b, c]);
                    let r = catch(|| cap(|| ThinArc::from_header_and_iter(HT::make(), it)));
                    if let Ok(t) = r {
                        // the recorded length is read before anything walks the slice
                        let rec = t.header.length;
                        let fat_len = t.with_arc(|f| f.slice.len());
                        if rec != actual || fat_len != actual {
                            g.fail("ctor-length-mismatch", &case, format!("constructor returned a ThinArc recording length {} (fat view {}), the iterator produced {} items", rec, fat_len, actual));
                            std::mem::forget(t);
                            continue;
                        }
                        cap(|| drop(t));
                    }
                }
            }
        }
    }
}

/// zero-sized elements make slice lengths beyond isize::MAX reachable without memory: the thin and
/// the fat view must still agree on them
fn zst_huge(g: &mut Grid) {
    let im = isize::MAX as usize;
    for n in [im - 1, im, im + 1, usize::MAX - 1, usize::MAX, 1usize << 32, (1usize << 32) + 1, 1usize << 63, (1usize << 63) + 1, 3usize << 62] {
        for rec in [n, n.wrapping_sub(1), n.wrapping_add(1), n & (im), n >> 1] {
            let case = format!("into_thin: header u64 + {} zero-sized elements, recorded length {}", n, rec);
            vrt::begin_execution();
            g.case(format!("zst-huge|{}|{}", n, if rec == n { "eq" } else { "ne" }), || case.clone());
            let fat = cap(|| Arc::from_header_and_vec(HeaderWithLength::new(7u64, rec), vec![(); n]));
            let blk = fat.heap_ptr() as usize;
            if fat.slice.len() != n {
                g.fail("zst-fat-length", &case, format!("the fat Arc exposes {} elements", fat.slice.len()));
            }
            match catch(|| cap(|| Arc::into_thin(fat))) {
                Ok(thin) => {
                    if rec != n {
                        g.fail("into-thin-accepted-wrong-length", &case, "accepted".into());
                        std::mem::forget(thin);
                        continue;
                    }
                    let (a, b, c) = (thin.header.length, thin.slice.len(), thin.with_arc(|f| f.slice.len()));
                    if a != n || b != n || c != n || thin.heap_ptr() as usize != blk || thin.header.header != 7 {
                        g.fail("thin-differs", &case, format!("recorded length {}, thin slice length {}, fat view length {} (true length {})", a, b, c, n));
                        std::mem::forget(thin);
                        continue;
                    }
                    match catch(|| cap(|| Arc::into_thin(Arc::from_thin(thin)))) {
                        Ok(back) => {
                            if back.slice.len() != n || back.heap_ptr() as usize != blk {
                                g.fail("round-trip", &case, format!("thin -> fat -> thin: length {}", back.slice.len()));
                            }
                            cap(|| drop(back));
                        }
                        Err(m) => g.fail("round-trip", &case, format!("thin -> fat -> thin refused: {}", m)),
                    }
                }
                Err(m) => {
                    if rec == n {
                        g.fail("into-thin-refused-right-length", &case, m);
                    }
                }
            }
            if !arena::live_blocks().is_empty() || arena::n_errors() != 0 {
                g.fail("release-after-into-thin", &case, format!("live {:?} errors {:?}", arena::live_blocks(), arena::errors_since(0)));
            }
        }
    }
}

pub fn run(tier: &str) -> Vec<Grid> {
    let mut g = Grid::new("c10.into_thin", "header shape x element shape x true length 0..=N x recorded length in {0..=n+2, usize::MAX/2+1, usize::MAX} x {sole, co-owned}: into_thin succeeds iff the lengths agree; otherwise panics and the Arc passed in is still released properly");
    let gr = &mut g;
    if tier == "thorough" {
        for_pairs!(pair, (gr, 6); [D0a1, D1a1, D3a1, D2a2, D4a4, D8a8, D24a8, D16a16, D64a64, D0a8, D0a64]);
    } else {
        for_pairs!(pair, (gr, 4); [D1a1, D3a1, D2a2, D8a8, D16a16, D64a64, D0a8]);
    }
    let mut c = Grid::new("c10.ctor", "ThinArc::from_header_and_iter under every 3-answer script of ExactSizeIterator::len() over {0,1,2,3,5} x real item count 0..=3: a returned ThinArc records the real length");
    ctor_scripts(&mut c);
    zst_huge(&mut g);
    vec![g, c]
}
