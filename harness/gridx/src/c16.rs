//! C16: reference-count overflow terminates the process instead of wrapping.
//! One child process per (starting count, clone entry point); the build decides std / no_std.
use crate::grid::Grid;
use std::sync::atomic::{AtomicUsize, Ordering};
use triomphe::{Arc, ArcUnion, HeaderSlice, OffsetArc, ThinArc};
use vrt::rmwlog;

pub const ENTRIES: &[&str] = &[
    "Arc<T>::clone",
    "Arc<[T]>::clone",
    "Arc<str>::clone",
    "Arc<dyn>::clone",
    "Arc<HeaderSlice>::clone",
    "ThinArc::clone",
    "OffsetArc::clone",
    "OffsetArc::clone_arc",
    "ArcBorrow::clone_arc",
    "ArcUnion(first)::clone",
    "ArcUnion(second)::clone",
    "ThinArc::with_arc(clone)",
    "OffsetArc::with_arc(clone)",
    "ArcBorrow::with_arc(clone)",
    "Arc::with_raw_offset_arc(clone)",
    "Arc::with_raw_offset_arc(clone_arc)",
    // Clone::clone_from is a clone entry point too (directly, and through Vec / Option / slice clone_from)
    "Arc<T>::clone_from",
    "Arc<[T]>::clone_from",
    "ThinArc::clone_from",
    "OffsetArc::clone_from",
    "ArcUnion(first)::clone_from",
    "Vec<Arc<T>>::clone_from",
    "Option<Arc<T>>::clone_from",
    // arc-swap support (only in builds with that feature): ArcSwap::load_full / Guard::into_inner call this
    "RefCnt::inc(Arc)",
    "RefCnt::inc(ThinArc)",
];

trait Tr {
    fn v(&self) -> u64;
}
impl Tr for u64 {
    fn v(&self) -> u64 {
        *self
    }
}

extern "C" {
    fn _exit(code: i32) -> !;
    fn write(fd: i32, buf: *const u8, n: usize) -> isize;
    fn close(fd: i32) -> i32;
}

// ---- interference: "another thread's clone" injected before the k-th atomic step of the clone under test
mod inj {
    use std::cell::RefCell;
    use std::sync::atomic::{AtomicBool, AtomicUsize, Ordering};
    use triomphe::verif_hook::{Hooks, Rmw};
    pub static AT: AtomicUsize = AtomicUsize::new(0);
    pub static CALLS: AtomicUsize = AtomicUsize::new(0);
    pub static ARMED: AtomicBool = AtomicBool::new(false);
    static BUSY: AtomicBool = AtomicBool::new(false);
    thread_local! {
        pub static NESTED: RefCell<Option<Box<dyn Fn()>>> = const { RefCell::new(None) };
    }
    fn point() {
        if !ARMED.load(Ordering::Relaxed) || BUSY.load(Ordering::Relaxed) {
            return;
        }
        let n = CALLS.fetch_add(1, Ordering::Relaxed) + 1;
        if n == AT.load(Ordering::Relaxed) {
            BUSY.store(true, Ordering::Relaxed);
            NESTED.with(|f| {
                if let Some(f) = f.borrow().as_ref() {
                    f()
                }
            });
            BUSY.store(false, Ordering::Relaxed);
        }
    }
    fn l(a: &AtomicUsize, o: Ordering) -> usize {
        point();
        a.load(o)
    }
    fn st(a: &AtomicUsize, v: usize, o: Ordering) {
        point();
        a.store(v, o)
    }
    fn r(k: Rmw, a: &AtomicUsize, v: usize, o: Ordering) -> usize {
        point();
        let old = vrt::rmwlog::do_rmw(k, a, v, o);
        if k == Rmw::Add && old > isize::MAX as usize {
            // reported at once: the process is expected to abort right after
            let m = b"PAST an increment found the count already past isize::MAX\n";
            unsafe { super::write(1, m.as_ptr(), m.len()) };
        }
        old
    }
    fn c(a: &AtomicUsize, cur: usize, new: usize, s: Ordering, f: Ordering, w: bool) -> Result<usize, usize> {
        point();
        let res = if w { a.compare_exchange_weak(cur, new, s, f) } else { a.compare_exchange(cur, new, s, f) };
        if let Ok(old) = res {
            if new > old && old > isize::MAX as usize {
                let m = b"PAST an increment found the count already past isize::MAX\n";
                unsafe { super::write(1, m.as_ptr(), m.len()) };
            }
        }
        res
    }
    fn f(o: Ordering) {
        std::sync::atomic::fence(o)
    }
    pub static TABLE: Hooks = Hooks { load: l, store: st, rmw: r, cas: c, fence: f };
}

/// learn where the count word of an allocation lives from the hook log of one count read
fn counter_addr(read_count: impl FnOnce() -> usize) -> (usize, usize) {
    let k = rmwlog::len();
    let c = read_count();
    let ops = rmwlog::since(k);
    let addr = ops.iter().find(|o| o.kind != rmwlog::AKind::Fence).map(|o| o.addr).expect("reading the count touched no atomic");
    (addr, c)
}
fn set_count(addr: usize, v: usize) {
    unsafe { (*(addr as *const AtomicUsize)).store(v, Ordering::SeqCst) }
}
fn get_count(addr: usize) -> usize {
    unsafe { (*(addr as *const AtomicUsize)).load(Ordering::SeqCst) }
}

pub fn child(args: &[String]) {
    use std::io::Write;
    let entry = crate::arg(args, "--entry").unwrap();
    let start: usize = crate::arg(args, "--start").unwrap().parse().unwrap();
    // payloads
    let a: Arc<u64> = Arc::new(5);
    let s: Arc<[u64]> = Arc::from(vec![1u64, 2]);
    let st: Arc<str> = Arc::from("héllo");
    let d: Arc<dyn Tr> = unsafe { Arc::from_raw(Arc::into_raw(Arc::new(9u64)) as *const dyn Tr) };
    let hs: Arc<HeaderSlice<u8, [u16]>> = Arc::from_header_and_slice(1, &[2, 3]);
    let t: ThinArc<u8, u16> = ThinArc::from_header_and_slice(1, &[2, 3]);
    let o: OffsetArc<u64> = Arc::into_raw_offset(Arc::new(6));
    let u1: ArcUnion<u64, u8> = ArcUnion::from_first(Arc::new(7));
    let u2: ArcUnion<u8, u64> = ArcUnion::from_second(Arc::new(8));
    let (addr, c0) = match entry.as_str() {
        "RefCnt::inc(Arc)" | "Arc<T>::clone" | "Arc<T>::clone_from" | "Vec<Arc<T>>::clone_from" | "Option<Arc<T>>::clone_from" | "ArcBorrow::clone_arc" | "ArcBorrow::with_arc(clone)" | "Arc::with_raw_offset_arc(clone)" | "Arc::with_raw_offset_arc(clone_arc)" => counter_addr(|| Arc::count(&a)),
        "Arc<[T]>::clone" | "Arc<[T]>::clone_from" => counter_addr(|| Arc::count(&s)),
        "Arc<str>::clone" => counter_addr(|| Arc::count(&st)),
        "Arc<dyn>::clone" => counter_addr(|| Arc::count(&d)),
        "Arc<HeaderSlice>::clone" => counter_addr(|| Arc::count(&hs)),
        "ThinArc::clone" | "ThinArc::clone_from" | "ThinArc::with_arc(clone)" | "RefCnt::inc(ThinArc)" => counter_addr(|| t.with_arc(|x| Arc::count(x))),
        "OffsetArc::clone" | "OffsetArc::clone_from" | "OffsetArc::clone_arc" | "OffsetArc::with_arc(clone)" => counter_addr(|| o.with_arc(|x| Arc::count(x))),
        "ArcUnion(first)::clone" | "ArcUnion(first)::clone_from" => counter_addr(|| u1.as_first().unwrap().with_arc(|x| Arc::count(x))),
        "ArcUnion(second)::clone" => counter_addr(|| u2.as_second().unwrap().with_arc(|x| Arc::count(x))),
        _ => panic!("unknown entry"),
    };
    assert_eq!(c0, 1);
    set_count(addr, start);
    println!("READY start={}", get_count(addr));
    std::io::stdout().flush().unwrap();
    let inject: usize = crate::arg(args, "--inject").map(|s| s.parse().unwrap()).unwrap_or(0);
    if inject > 0 {
        // the interfering clone goes through the same kind of handle, on the same allocation
        let (pa, pt, po, pu1, pu2) = (&a as *const Arc<u64> as usize, &t as *const ThinArc<u8, u16> as usize, &o as *const OffsetArc<u64> as usize, &u1 as *const ArcUnion<u64, u8> as usize, &u2 as *const ArcUnion<u8, u64> as usize);
        let e = entry.clone();
        let nested: Box<dyn Fn()> = Box::new(move || unsafe {
            if e.starts_with("ThinArc") {
                std::mem::forget((*(pt as *const ThinArc<u8, u16>)).clone())
            } else if e.starts_with("OffsetArc") {
                std::mem::forget((*(po as *const OffsetArc<u64>)).clone())
            } else if e.starts_with("ArcUnion(first)") {
                std::mem::forget((*(pu1 as *const ArcUnion<u64, u8>)).clone())
            } else if e.starts_with("ArcUnion(second)") {
                std::mem::forget((*(pu2 as *const ArcUnion<u8, u64>)).clone())
            } else {
                std::mem::forget((*(pa as *const Arc<u64>)).clone())
            }
        });
        inj::NESTED.with(|n| *n.borrow_mut() = Some(nested));
        inj::AT.store(inject, Ordering::Relaxed);
        triomphe::verif_hook::set_hooks(Some(&inj::TABLE));
        inj::ARMED.store(true, Ordering::Relaxed);
    }
    let r = std::panic::catch_unwind(std::panic::AssertUnwindSafe(|| match entry.as_str() {
        "Arc<T>::clone" => std::mem::forget(a.clone()),
        "Arc<[T]>::clone" => std::mem::forget(s.clone()),
        "Arc<str>::clone" => std::mem::forget(st.clone()),
        "Arc<dyn>::clone" => std::mem::forget(d.clone()),
        "Arc<HeaderSlice>::clone" => std::mem::forget(hs.clone()),
        "ThinArc::clone" => std::mem::forget(t.clone()),
        "OffsetArc::clone" => std::mem::forget(o.clone()),
        "OffsetArc::clone_arc" => std::mem::forget(o.clone_arc()),
        "ArcBorrow::clone_arc" => std::mem::forget(a.borrow_arc().clone_arc()),
        "ArcUnion(first)::clone" => std::mem::forget(u1.clone()),
        "ArcUnion(second)::clone" => std::mem::forget(u2.clone()),
        "ThinArc::with_arc(clone)" => t.with_arc(|x| std::mem::forget(x.clone())),
        "OffsetArc::with_arc(clone)" => o.with_arc(|x| std::mem::forget(x.clone())),
        "ArcBorrow::with_arc(clone)" => a.borrow_arc().with_arc(|x| std::mem::forget(x.clone())),
        "Arc::with_raw_offset_arc(clone)" => a.with_raw_offset_arc(|x| std::mem::forget(x.clone())),
        "Arc::with_raw_offset_arc(clone_arc)" => a.with_raw_offset_arc(|x| std::mem::forget(x.clone_arc())),
        // clone_from into a handle that refers to another allocation
        "Arc<T>::clone_from" => {
            let mut dst: Arc<u64> = Arc::new(50);
            dst.clone_from(&a);
            std::mem::forget(dst)
        }
        "Arc<[T]>::clone_from" => {
            let mut dst: Arc<[u64]> = Arc::from(vec![5u64]);
            dst.clone_from(&s);
            std::mem::forget(dst)
        }
        "ThinArc::clone_from" => {
            let mut dst: ThinArc<u8, u16> = ThinArc::from_header_and_slice(9, &[9]);
            dst.clone_from(&t);
            std::mem::forget(dst)
        }
        "OffsetArc::clone_from" => {
            let mut dst: OffsetArc<u64> = Arc::into_raw_offset(Arc::new(60));
            dst.clone_from(&o);
            std::mem::forget(dst)
        }
        "ArcUnion(first)::clone_from" => {
            let mut dst: ArcUnion<u64, u8> = ArcUnion::from_second(Arc::new(1u8));
            dst.clone_from(&u1);
            std::mem::forget(dst)
        }
        "Vec<Arc<T>>::clone_from" => {
            let src = vec![a.clone()];
            set_count(addr, start);
            let mut dst: Vec<Arc<u64>> = vec![Arc::new(51)];
            dst.clone_from(&src);
            std::mem::forget((src, dst))
        }
        "Option<Arc<T>>::clone_from" => {
            let src = Some(a.clone());
            set_count(addr, start);
            let mut dst: Option<Arc<u64>> = Some(Arc::new(52));
            dst.clone_from(&src);
            std::mem::forget((src, dst))
        }
        #[cfg(feature = "cfg_all")]
        "RefCnt::inc(Arc)" => {
            let _ = <Arc<u64> as arc_swap::RefCnt>::inc(&a);
        }
        #[cfg(feature = "cfg_all")]
        "RefCnt::inc(ThinArc)" => {
            let _ = <ThinArc<u8, u16> as arc_swap::RefCnt>::inc(&t);
        }
        _ => unreachable!(),
    }));
    inj::ARMED.store(false, Ordering::Relaxed);
    match r {
        Ok(()) => println!("SENTINEL returned count={}", get_count(addr)),
        Err(_) => println!("CAUGHT a panic was caught by catch_unwind; count={}", get_count(addr)),
    }
    std::io::stdout().flush().unwrap();
    unsafe { _exit(0) }
}

pub fn run(_tier: &str) -> Vec<Grid> {
    vrt::crash::idle(); // waits on child processes, not on a cell
    use std::os::unix::process::ExitStatusExt;
    use std::process::Command;
    let cfg = if cfg!(feature = "cfg_default") { "std" } else { "no_std" };
    let mut g = Grid::new(if cfg == "std" { "c16.overflow.std" } else { "c16.overflow.no_std" }, "starting count in {1, 2, 2^31, 2^32, isize::MAX-1, isize::MAX, isize::MAX+1, isize::MAX+2, usize::MAX-1, usize::MAX} x clone entry point, one child process each, in this build's configuration (std / no_std abort path)");
    let im = isize::MAX as usize;
    let starts = [1usize, 2, 1 << 31, 1 << 32, im - 1, im, im + 1, im + 2, usize::MAX - 1, usize::MAX];
    let exe = std::env::current_exe().unwrap();
    let mut jobs = vec![];
    for e in ENTRIES {
        if e.starts_with("RefCnt") && !cfg!(feature = "cfg_all") {
            continue;
        }
        for s in starts {
            jobs.push((*e, s, "piped"));
        }
        for s in [im + 1, usize::MAX] {
            jobs.push((*e, s, "full"));
            jobs.push((*e, s, "closed"));
        }
    }
    let next = AtomicUsize::new(0);
    let out = std::sync::Mutex::new(vec![]);
    vrt::crash::idle(); // waiting on child processes is not a hang
    std::thread::scope(|sc| {
        for _ in 0..16 {
            sc.spawn(|| loop {
                let i = next.fetch_add(1, Ordering::Relaxed);
                if i >= jobs.len() {
                    break;
                }
                let mut cmd = Command::new(&exe);
                cmd.args(["--child", "c16", "--entry", jobs[i].0, "--start", &jobs[i].1.to_string()]);
                match jobs[i].2 {
                    // a standard error stream on which every write fails, or none at all: whatever the
                    // overflow path prints before it aborts must not turn the abort into something else
                    "full" => {
                        cmd.stderr(std::fs::OpenOptions::new().write(true).open("/dev/full").unwrap());
                    }
                    "closed" => unsafe {
                        use std::os::unix::process::CommandExt;
                        cmd.pre_exec(|| {
                            close(2);
                            Ok(())
                        });
                    },
                    _ => {}
                }
                let o = cmd.output().unwrap();
                let code = o.status.code().unwrap_or_else(|| -o.status.signal().unwrap_or(0));
                out.lock().unwrap().push((i, String::from_utf8_lossy(&o.stdout).to_string(), code));
            });
        }
    });
    let mut res = out.into_inner().unwrap();
    res.sort();
    for (i, stdout, code) in res {
        let (e, s, errs) = jobs[i];
        let case = format!("[{}] {} with the count at {}{}", cfg, e, s, match errs {
            "full" => " (standard error: every write fails)",
            "closed" => " (standard error closed)",
            _ => "",
        });
        let must_abort = s > im;
        let sentinel = stdout.lines().find(|l| l.starts_with("SENTINEL"));
        let caught = stdout.contains("CAUGHT");
        let ready = stdout.contains(&format!("READY start={}", s));
        let outcome = if caught {
            "caught-panic"
        } else if sentinel.is_some() {
            "returned"
        } else if matches!(code, -6 | -4 | -5 | 134) {
            "aborted"
        } else {
            "other"
        };
        g.case(format!("{}|{}|{}|{}|{}", cfg, e, if must_abort { "over" } else { "under" }, outcome, errs), || format!("{} -> {}", case, outcome));
        if !ready {
            g.fail("machinery:c16-setup", &case, format!("child did not reach the clone: rc {} out {:?}", code, stdout));
            continue;
        }
        if must_abort {
            match outcome {
                "aborted" => {}
                "caught-panic" => g.fail("overflow-recoverable", &case, "the overflow guard raised a panic that catch_unwind caught: the process must abort".into()),
                "returned" => g.fail("overflow-not-stopped", &case, format!("clone returned another handle past the limit: {}", sentinel.unwrap())),
                _ => g.fail("overflow-odd-exit", &case, format!("child ended with {} and output {:?}", code, stdout)),
            }
        } else {
            let want = format!("count={}", s + 1);
            match outcome {
                "returned" if sentinel.unwrap().ends_with(&want) => {}
                "returned" => g.fail("clone-count", &case, format!("clone below the limit must add exactly one: {} (expected {})", sentinel.unwrap(), want)),
                _ => g.fail("clone-below-limit-failed", &case, format!("clone below the limit did not return normally: outcome {} rc {} out {:?}", outcome, code, stdout)),
            }
        }
    }
    // ---- interference grid: another clone lands before the k-th atomic step of the clone under test
    let mut gi = Grid::new(if cfg == "std" { "c16.interference.std" } else { "c16.interference.no_std" }, "starting count in {isize::MAX-1, isize::MAX} x clone entry point x position k in 1..=3 at which a second clone of the same allocation is interleaved (before the k-th atomic step): whenever any increment finds the count already past isize::MAX the process must abort; otherwise both clones return and add one each");
    let entries: Vec<&str> = ENTRIES.iter().copied().filter(|e| !matches!(*e, "Arc<[T]>::clone" | "Arc<str>::clone" | "Arc<dyn>::clone" | "Arc<HeaderSlice>::clone" | "Arc<[T]>::clone_from" | "Vec<Arc<T>>::clone_from" | "Option<Arc<T>>::clone_from") && (cfg!(feature = "cfg_all") || !e.starts_with("RefCnt"))).collect();
    let mut jobs2 = vec![];
    for e in &entries {
        for s in [im - 1, im] {
            for k in 1..=3usize {
                jobs2.push((*e, s, k));
            }
        }
    }
    let next = AtomicUsize::new(0);
    let out = std::sync::Mutex::new(vec![]);
    vrt::crash::idle(); // waiting on child processes is not a hang
    std::thread::scope(|sc| {
        for _ in 0..16 {
            sc.spawn(|| loop {
                let i = next.fetch_add(1, Ordering::Relaxed);
                if i >= jobs2.len() {
                    break;
                }
                let o = Command::new(&exe).args(["--child", "c16", "--entry", jobs2[i].0, "--start", &jobs2[i].1.to_string(), "--inject", &jobs2[i].2.to_string()]).output().unwrap();
                let code = o.status.code().unwrap_or_else(|| -o.status.signal().unwrap_or(0));
                out.lock().unwrap().push((i, String::from_utf8_lossy(&o.stdout).to_string(), code));
            });
        }
    });
    let mut res = out.into_inner().unwrap();
    res.sort();
    for (i, stdout, code) in res {
        let (e, s, k) = jobs2[i];
        let case = format!("[{}] {} with the count at {} and a second clone interleaved before atomic step {}", cfg, e, s, k);
        let past = stdout.contains("PAST");
        let sentinel = stdout.lines().find(|l| l.starts_with("SENTINEL"));
        let aborted = matches!(code, -6 | -4 | -5 | 134);
        let outcome = if stdout.contains("CAUGHT") {
            "caught-panic"
        } else if sentinel.is_some() {
            "returned"
        } else if aborted {
            "aborted"
        } else {
            "other"
        };
        gi.case(format!("{}|{}|{}|{}|{}|past={}", cfg, e, s == im, k, outcome, past), || format!("{} -> {} (an increment saw the count past the limit: {})", case, outcome, past));
        match (outcome, past) {
            ("aborted", true) | ("returned", false) => {}
            ("returned", true) => gi.fail("overflow-check-not-atomic", &case, format!("an increment found the count already past isize::MAX and the clone still returned a handle: {}", sentinel.unwrap())),
            ("aborted", false) => gi.fail("abort-below-limit", &case, "the process aborted although no increment ever found the count past isize::MAX".into()),
            ("caught-panic", _) => gi.fail("overflow-recoverable", &case, "the overflow guard raised a catchable panic".into()),
            _ => gi.fail("overflow-odd-exit", &case, format!("child ended with {} and output {:?}", code, stdout)),
        }
    }
    vec![g, gi]
}
