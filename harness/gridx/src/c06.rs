//! C06: constructors deliver exactly the given contents and move each element once.
use crate::elems::*;
use crate::grid::Grid;
use triomphe::{Arc, HeaderSlice, HeaderWithLength, ThinArc, UniqueArc};
use vrt::arena::{self, cap};
use vrt::{catch, track};

thread_local! {
    /// run the constructor and the release while the thread is unwinding from an unrelated panic
    static UNWINDING: std::cell::Cell<bool> = const { std::cell::Cell::new(false) };
}
fn ctx<R>(f: impl FnOnce() -> R) -> R {
    if UNWINDING.with(|u| u.get()) {
        vrt::during_unwind(f)
    } else {
        f()
    }
}

pub struct View<'a, H, E> {
    pub header: Option<&'a H>,
    pub elems: &'a [E],
    pub thin_len: Option<usize>,
}

/// Build (header, elements) inside the window, construct, inspect, release; all accounting checked.
pub fn eval<H: Hdr, E: Elem, B>(g: &mut Grid, case: &str, class: String, n: usize, slack: usize, construct: impl FnOnce(H, Vec<E>) -> B, view: impl for<'a> Fn(&'a B) -> View<'a, H, E>) {
    vrt::begin_execution();
    g.begin(case);
    let zst = std::mem::size_of::<E>() == 0;
    let (h, v, hid, ids) = cap(|| {
        let h = H::make();
        let hid = h.look().1;
        let mut v: Vec<E> = Vec::with_capacity(n + slack);
        for i in 0..n {
            v.push(E::make(i as u32));
        }
        let ids: Vec<u32> = arena::suspend(|| v.iter().map(|e| e.look().1).collect());
        (h, v, hid, ids)
    });
    let d0 = track::n_drops();
    let b = match catch(|| cap(|| ctx(|| construct(h, v)))) {
        Ok(b) => b,
        Err(m) => {
            if zst {
                // zero-sized elements may be refused up front; the wording of the refusal is not part of the property
                g.case(format!("{}|refused", class), || format!("{} -> refused up front ({})", case, m.lines().next().unwrap_or("")));
            } else {
                g.case(class, || case.to_string());
                g.fail("ctor-panic", case, format!("constructor panicked: {}", m));
            }
            return;
        }
    };
    g.case(class, || case.to_string());
    {
        let vw = view(&b);
        if let Some(hh) = vw.header {
            let (ok, id) = hh.look();
            if !ok || id != hid {
                g.fail("header-wrong", case, format!("header read back intact={} id={} (given id {})", ok, id, hid));
            }
        }
        if vw.elems.len() != n {
            g.fail("length-wrong", case, format!("{} elements given, handle exposes {}", n, vw.elems.len()));
        }
        if let Some(tl) = vw.thin_len {
            if tl != n {
                g.fail("thin-length-wrong", case, format!("{} elements given, recorded length {}", n, tl));
            }
        }
        for (i, e) in vw.elems.iter().enumerate().take(n) {
            let (ok, id, ord) = e.look();
            if !ok || id != ids[i] || (!zst && ord != i as u32) {
                g.fail("element-wrong", case, format!("element {} reads intact={} id={} ordinal={} (given id {} ordinal {})", i, ok, id, ord, ids[i], i));
                break;
            }
        }
    }
    let during = track::drops_since(d0);
    if !during.is_empty() {
        g.fail("dropped-while-alive", case, format!("destructors ran while the handle is alive: {:?}", during));
    }
    let live = arena::live_blocks().len();
    let want_live = 1 + n * E::INNER_BLOCKS;
    if live != want_live {
        g.fail("source-storage", case, format!("{} live blocks after construction, expected {} (the allocation{}): the source container's storage was not released or something leaked", live, want_live, if E::INNER_BLOCKS > 0 { " + one box per element" } else { "" }));
    }
    if let Err(m) = catch(|| cap(|| ctx(|| drop(b)))) {
        g.fail("release-panic", case, m);
    }
    let mut got = track::drops_since(d0);
    got.sort();
    let mut want: Vec<(u8, u32)> = ids.iter().map(|i| (E::TAG, *i)).collect();
    if H::TAG != 0 {
        want.push((H::TAG, hid));
    }
    want.sort();
    if got != want {
        g.fail("drop-accounting", case, format!("after release every input value must have been destroyed exactly once: expected {:?}, destructor log {:?}", want, got));
    }
    let live = arena::live_blocks();
    if !live.is_empty() {
        g.fail("leak", case, format!("blocks still allocated after release: {:?}", live));
    }
    for e in arena::errors_since(0) {
        g.fail("allocator-error", case, format!("{:?}", e));
    }
    for p in track::perr_since(0) {
        g.fail("payload-error", case, p);
    }
}

fn script<E>(v: Vec<E>, r: Regime) -> Script<E> {
    arena::suspend(|| Script::new(v, r))
}

pub fn family<H: Hdr, E: Elem>(g: &mut Grid, lens: &[usize]) {
    type Fat<H, E> = Arc<HeaderSlice<H, [E]>>;
    for &n in lens {
        let nm = |c: &str| (format!("{} header={} elem={} len={}", c, H::NAME, E::NAME, n), format!("{}|{}|{}|{}", c, H::NAME, E::NAME, n.min(4)));
        let (case, class) = nm("from_header_and_iter");
        eval::<H, E, Fat<H, E>>(g, &case, class, n, 0, |h, v| Arc::from_header_and_iter(h, script(v, Regime::Exact)), |b| View { header: Some(&b.header), elems: &b.slice, thin_len: None });
        for slack in [0usize, 1, 5] {
            let (case, class) = nm(&format!("from_header_and_vec(cap+{})", slack));
            eval::<H, E, Fat<H, E>>(g, &case, class, n, slack, |h, v| Arc::from_header_and_vec(h, v), |b| View { header: Some(&b.header), elems: &b.slice, thin_len: None });
        }
        let (case, class) = nm("ThinArc::from_header_and_iter");
        eval::<H, E, ThinArc<H, E>>(g, &case, class, n, 0, |h, v| ThinArc::from_header_and_iter(h, script(v, Regime::Exact)), |b| View { header: Some(&b.header.header), elems: &b.slice, thin_len: Some(b.header.length) });
        let (case, class) = nm("into_thin(from_header_and_vec)");
        eval::<H, E, ThinArc<H, E>>(g, &case, class, n, 0, |h, v| Arc::into_thin(Arc::from_header_and_vec(HeaderWithLength::new(h, v.len()), v)), |b| View { header: Some(&b.header.header), elems: &b.slice, thin_len: Some(b.header.length) });
    }
}

pub fn plain<E: Elem>(g: &mut Grid, lens: &[usize]) {
    for &n in lens {
        let nm = |c: &str| (format!("{} elem={} len={}", c, E::NAME, n), format!("{}|{}|{}", c, E::NAME, n.min(4)));
        for slack in [0usize, 1, 5] {
            let (case, class) = nm(&format!("Arc<[T]>::from(Vec cap+{})", slack));
            eval::<(), E, Arc<[E]>>(g, &case, class, n, slack, |_, v| Arc::from(v), |b| View { header: None, elems: b, thin_len: None });
        }
        for r in [Regime::Exact, Regime::LowerLtUpper, Regime::UnknownUpper, Regime::LowerZero] {
            let (case, class) = nm(&format!("Arc<[T]>::from_iter({:?})", r));
            eval::<(), E, Arc<[E]>>(g, &case, class, n, 0, |_, v| script(v, r).collect(), |b| View { header: None, elems: b, thin_len: None });
            let (case, class) = nm(&format!("UniqueArc<[T]>::from_iter({:?})", r));
            eval::<(), E, UniqueArc<[E]>>(g, &case, class, n, 0, |_, v| script(v, r).collect(), |b| View { header: None, elems: b, thin_len: None });
        }
        let (case, class) = nm("erase(from_header_and_vec(()))");
        eval::<(), E, Arc<[E]>>(g, &case, class, n, 0, |_, v| Arc::<[E]>::from(Arc::from_header_and_vec((), v)), |b| View { header: None, elems: b, thin_len: None });
        let (case, class) = nm("unerase(Arc<[T]>::from(Vec))");
        eval::<(), E, Arc<HeaderSlice<(), [E]>>>(g, &case, class, n, 0, |_, v| Arc::<HeaderSlice<(), [E]>>::from(Arc::<[E]>::from(v)), |b| View { header: Some(&b.header), elems: &b.slice, thin_len: None });
    }
    sized::<E>(g);
}

/// sized constructors: the "slice" is the one value
pub fn sized<E: Elem>(g: &mut Grid) {
    fn one<E>(b: &E) -> &[E] {
        std::slice::from_ref(b)
    }
    let nm = |c: &str| (format!("{} value={}", c, E::NAME), format!("{}|{}", c, E::NAME));
    let (case, class) = nm("Arc::new");
    eval::<(), E, Arc<E>>(g, &case, class, 1, 0, |_, mut v| Arc::new(v.pop().unwrap()), |b| View { header: None, elems: one(b), thin_len: None });
    let (case, class) = nm("Arc::from(T)");
    eval::<(), E, Arc<E>>(g, &case, class, 1, 0, |_, mut v| Arc::from(v.pop().unwrap()), |b| View { header: None, elems: one(b), thin_len: None });
    let (case, class) = nm("Arc::from(Box<T>)");
    eval::<(), E, Arc<E>>(g, &case, class, 1, 0, |_, mut v| Arc::from(Box::new(v.pop().unwrap())), |b| View { header: None, elems: one(b), thin_len: None });
    let (case, class) = nm("UniqueArc::new");
    eval::<(), E, UniqueArc<E>>(g, &case, class, 1, 0, |_, mut v| UniqueArc::new(v.pop().unwrap()), |b| View { header: None, elems: one(b), thin_len: None });
    let (case, class) = nm("HeaderSlice sized: Arc::new(HeaderSlice{header,slice})");
    eval::<(), E, Arc<HeaderSlice<(), E>>>(g, &case, class, 1, 0, |_, mut v| Arc::new(HeaderSlice { header: (), slice: v.pop().unwrap() }), |b| View { header: None, elems: one(&b.slice), thin_len: None });
}

// ---------------------------------------------------------------- Copy sources: slices and strings
pub trait CopyEl: Copy + PartialEq + std::fmt::Debug + 'static {
    const NAME: &'static str;
    fn mk(i: usize) -> Self;
}
impl CopyEl for u8 {
    const NAME: &'static str = "u8";
    fn mk(i: usize) -> u8 {
        (i * 7 + 1) as u8
    }
}
impl CopyEl for u16 {
    const NAME: &'static str = "u16";
    fn mk(i: usize) -> u16 {
        (i * 257 + 3) as u16
    }
}
impl CopyEl for u64 {
    const NAME: &'static str = "u64";
    fn mk(i: usize) -> u64 {
        (i as u64 + 1) * 0x0101_0101_0101_0101
    }
}
impl CopyEl for [u8; 3] {
    const NAME: &'static str = "[u8;3]";
    fn mk(i: usize) -> [u8; 3] {
        [i as u8, i as u8 ^ 0xff, 0x33]
    }
}
#[derive(Clone, Copy, PartialEq, Debug)]
#[repr(align(16))]
pub struct C16(pub u64);
impl CopyEl for C16 {
    const NAME: &'static str = "align16";
    fn mk(i: usize) -> C16 {
        C16(i as u64 * 3 + 9)
    }
}

fn copy_case<B>(g: &mut Grid, case: String, class: String, expect_live: usize, construct: impl FnOnce() -> B, check: impl Fn(&B) -> Option<String>) {
    vrt::begin_execution();
    g.begin(&case);
    let b = match catch(|| cap(|| ctx(construct))) {
        Ok(b) => b,
        Err(m) => {
            g.case(class, || case.clone());
            g.fail("ctor-panic", &case, m);
            return;
        }
    };
    g.case(class, || case.clone());
    if let Some(m) = check(&b) {
        g.fail("contents-wrong", &case, m);
    }
    if arena::live_blocks().len() != expect_live {
        g.fail("source-storage", &case, format!("{} live blocks after construction, expected {}", arena::live_blocks().len(), expect_live));
    }
    cap(|| ctx(|| drop(b)));
    if !arena::live_blocks().is_empty() {
        g.fail("leak", &case, format!("blocks still allocated after release: {:?}", arena::live_blocks()));
    }
    for e in arena::errors_since(0) {
        g.fail("allocator-error", &case, format!("{:?}", e));
    }
}

pub fn copies<H: Hdr, T: CopyEl>(g: &mut Grid, lens: &[usize]) {
    for &n in lens {
        let src: Vec<T> = (0..n).map(T::mk).collect();
        let keep = src.clone();
        let cmp = |got: &[T]| if got == &keep[..] { None } else { Some(format!("given {:?}, handle holds {:?}", keep, got)) };
        let hok = |h: &H| if h.look().0 { None } else { Some("header damaged".to_string()) };
        let tag = |c: &str| (format!("{} header={} elem={} len={}", c, H::NAME, T::NAME, n), format!("{}|{}|{}|{}", c, H::NAME, T::NAME, n.min(4)));
        let (case, class) = tag("from_header_and_slice");
        copy_case(g, case, class, 1, || Arc::from_header_and_slice(H::make(), &src), |b| cmp(&b.slice).or(hok(&b.header)));
        let (case, class) = tag("ThinArc::from_header_and_slice");
        copy_case(g, case, class, 1, || ThinArc::from_header_and_slice(H::make(), &src), |b| cmp(&b.slice).or(hok(&b.header.header)).or(if b.header.length == n { None } else { Some(format!("recorded length {}", b.header.length)) }));
        let (case, class) = tag("Arc<[T]>::from(&[T])");
        copy_case(g, case, class, 1, || Arc::<[T]>::from(&src[..]), |b| cmp(b));
        if src != keep {
            g.fail("source-modified", "copy source", "a Copy source slice was modified".into());
        }
    }
}

pub fn strings(g: &mut Grid, maxlen: usize) {
    let alphabet = ['a', 'é', '漢', '\u{1F600}'];
    // every string of char-length <= 3 over the alphabet, then longer ones by repetition
    let mut all: Vec<String> = vec![String::new()];
    let mut frontier = vec![String::new()];
    for _ in 0..3 {
        let mut nf = vec![];
        for s in &frontier {
            for c in alphabet {
                let mut t = s.clone();
                t.push(c);
                nf.push(t);
            }
        }
        all.extend(nf.iter().cloned());
        frontier = nf;
    }
    for n in 4..=maxlen {
        all.push((0..n).map(|i| alphabet[i % 4]).collect());
    }
    for s in &all {
        let tag = |c: &str| (format!("{} {:?}", c, s), format!("{}|chars{}|bytes{}", c, s.chars().count().min(4), s.len().min(9)));
        let (case, class) = tag("from_header_and_str(u8)");
        copy_case(g, case, class, 1, || Arc::from_header_and_str(<u8 as Hdr>::make(), s), |b| if &b.slice == s.as_str() && b.header == 0x7e { None } else { Some(format!("holds {:?} header {:#x}", &b.slice, b.header)) });
        let (case, class) = tag("from_header_and_str(tracked32)");
        copy_case(g, case, class, 1, || Arc::from_header_and_str(H32::make(), s), |b| if &b.slice == s.as_str() && b.header.look().0 { None } else { Some(format!("holds {:?}", &b.slice)) });
        let (case, class) = tag("Arc<str>::from(&str)");
        copy_case(g, case, class, 1, || Arc::<str>::from(s.as_str()), |b| if &**b == s.as_str() { None } else { Some(format!("holds {:?}", &**b)) });
        let (case, class) = tag("Arc<str>::from(String)");
        copy_case(g, case, class, 1, || Arc::<str>::from(String::from(s.as_str())), |b| if &**b == s.as_str() { None } else { Some(format!("holds {:?}", &**b)) });
    }
}

pub fn long_strings(g: &mut Grid, lens: &[usize]) {
    for &n in lens {
        let s: String = (0..n).map(|i| ['a', 'é', '漢', '\u{1F600}'][i % 4]).collect();
        let tag = |c: &str| (format!("{} of {} chars", c, n), format!("{}|long", c));
        let (case, class) = tag("from_header_and_str(u8)");
        copy_case(g, case, class, 1, || Arc::from_header_and_str(<u8 as Hdr>::make(), &s), |b| if &b.slice == s.as_str() && b.header == 0x7e { None } else { Some("contents differ".to_string()) });
        let (case, class) = tag("Arc<str>::from(&str)");
        copy_case(g, case, class, 1, || Arc::<str>::from(s.as_str()), |b| if &**b == s.as_str() { None } else { Some("contents differ".to_string()) });
        let (case, class) = tag("Arc<str>::from(String)");
        copy_case(g, case, class, 1, || Arc::<str>::from(String::from(s.as_str())), |b| if &**b == s.as_str() { None } else { Some("contents differ".to_string()) });
    }
}

pub fn defaults(g: &mut Grid) {
    let (case, class) = ("Arc::<Tracked>::default()".to_string(), "default|tracked".to_string());
    vrt::begin_execution();
    let a: Arc<ET> = cap(Arc::default);
    g.case(class, || case.clone());
    let p = a.peek();
    if !p.intact() || p.val != 0 {
        g.fail("contents-wrong", &case, format!("default value reads {:?}", p));
    }
    cap(|| drop(a));
    if track::drops_since(0) != vec![(6u8, p.id)] || !arena::live_blocks().is_empty() {
        g.fail("drop-accounting", &case, format!("drops {:?} live {:?}", track::drops_since(0), arena::live_blocks()));
    }
    for s in [0u64, 7] {
        let a: Arc<u64> = if s == 0 { Arc::default() } else { Arc::from(s) };
        g.case(format!("default|u64|{}", s), || "Arc::<u64>::default()/from".into());
        if *a != s {
            g.fail("contents-wrong", "Arc<u64> default/from", format!("{}", *a));
        }
    }
}

/// Every constructor (non-zero-sized elements: a refusal would be a second panic) for lengths 0..=3,
/// built and released while the thread is unwinding from an unrelated panic: the contents, the
/// accounting and the allocator's view must be what they are in a quiet thread.
pub fn unwinding_grid() -> Grid {
    let mut g = Grid::new("c06.unwinding", "every constructor x length 0..=3 x element class x header class, constructed AND released inside a destructor that runs during the unwind of an unrelated panic (std::thread::panicking() is true): same contents, same accounting");
    UNWINDING.with(|u| u.set(true));
    let lens = [0usize, 1, 2, 3];
    family::<(), ET>(&mut g, &lens);
    family::<HT, ET>(&mut g, &lens);
    family::<H32, EB>(&mut g, &lens);
    family::<u8, E2>(&mut g, &lens);
    family::<(), E16>(&mut g, &lens);
    plain::<ET>(&mut g, &lens);
    plain::<EB>(&mut g, &lens);
    plain::<E2>(&mut g, &lens);
    sized::<EBig<4096>>(&mut g);
    copies::<(), u8>(&mut g, &lens);
    copies::<HT, u16>(&mut g, &lens);
    copies::<H32, u64>(&mut g, &lens);
    UNWINDING.with(|u| u.set(false));
    g
}

pub fn run(tier: &str) -> Vec<Grid> {
    let n = if tier == "thorough" { 33 } else { 9 };
    let small: Vec<usize> = (0..=n).collect();
    let n = &small[..];
    // far beyond every small length: 2^k - 1, 2^k, 2^k + 1 (a length- or size-dependent path would start somewhere like this)
    let big: Vec<usize> = if tier == "thorough" { vec![63, 64, 65, 127, 128, 129, 255, 256, 257, 511, 512, 513, 1023, 1024, 1025, 2047, 2048, 2049, 4095, 4096, 4097] } else { vec![63, 64, 65, 127, 128, 129, 255, 256, 257, 1023, 1024, 1025] };
    let mut g = Grid::new("c06.owned", "constructor x length (0..=N, then 2^k-1, 2^k, 2^k+1 up to 1025 / 4097 for two element and two header classes) x Vec capacity slack x size_hint regime x element class x header class, owned (moved) inputs with identity-tracked elements; distinct = (constructor, header class, element class, min(len,4))");
    macro_rules! fam {
        ($h:ty) => {
            family::<$h, ET>(&mut g, n);
            family::<$h, EB>(&mut g, n);
            family::<$h, E1>(&mut g, n);
            family::<$h, E2>(&mut g, n);
            family::<$h, E16>(&mut g, n);
            family::<$h, EZ>(&mut g, n);
        };
    }
    fam!(());
    fam!(u8);
    fam!((u32, u8));
    fam!(HT);
    fam!(H32);
    plain::<ET>(&mut g, n);
    plain::<EB>(&mut g, n);
    plain::<E1>(&mut g, n);
    plain::<E2>(&mut g, n);
    plain::<E16>(&mut g, n);
    plain::<EZ>(&mut g, n);
    family::<(), ET>(&mut g, &big);
    family::<H32, ET>(&mut g, &big);
    family::<(), E2>(&mut g, &big);
    family::<H32, E2>(&mut g, &big);
    plain::<ET>(&mut g, &big);
    plain::<E2>(&mut g, &big);
    // sized values of 4 KiB, 64 KiB and 256 KiB with a tracked destructor
    sized::<EBig<4096>>(&mut g);
    sized::<EBig<65536>>(&mut g);
    sized::<EBig<262144>>(&mut g);
    defaults(&mut g);
    let mut c = Grid::new("c06.copied", "copying constructors (from_header_and_slice, ThinArc::from_header_and_slice, From<&[T]>, from_header_and_str, From<&str>, From<String>) x length x element/header class; strings: every string of <=3 chars over {a, é, 漢, emoji} plus longer ones");
    macro_rules! cop {
        ($h:ty) => {
            copies::<$h, u8>(&mut c, n);
            copies::<$h, u16>(&mut c, n);
            copies::<$h, u64>(&mut c, n);
            copies::<$h, [u8; 3]>(&mut c, n);
            copies::<$h, C16>(&mut c, n);
        };
    }
    cop!(());
    cop!(u8);
    cop!((u32, u8));
    cop!(HT);
    cop!(H32);
    let bigc: Vec<usize> = big.iter().copied().chain(if tier == "thorough" { vec![8191, 8192, 8193, 32767, 32768, 32769] } else { vec![] }).collect();
    copies::<(), u8>(&mut c, &bigc);
    copies::<(), u16>(&mut c, &bigc);
    copies::<H32, u16>(&mut c, &bigc);
    copies::<(), u64>(&mut c, &bigc);
    copies::<H32, [u8; 3]>(&mut c, &bigc);
    copies::<(), C16>(&mut c, &bigc);
    strings(&mut c, n.len() - 1);
    long_strings(&mut c, &bigc);
    vec![g, c, unwinding_grid()]
}
