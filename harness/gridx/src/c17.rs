//! C17: serialisation is transparent and deserialisation yields a fresh sole owner.
//! A recording serializer logs every Serializer call (and can fail at the k-th); a value-tree
//! deserializer replays an input (and can fail at the k-th callback).
use crate::grid::Grid;
use serde::de::{self, DeserializeSeed, Deserializer, EnumAccess, IntoDeserializer, MapAccess, SeqAccess, VariantAccess, Visitor};
use serde::ser::{self, Serialize, SerializeMap, SerializeSeq, SerializeStruct, SerializeStructVariant, SerializeTuple, SerializeTupleStruct, SerializeTupleVariant, Serializer};
use serde::Deserialize;
use std::cell::RefCell;
use std::fmt;
use std::rc::Rc;
use triomphe::{Arc, UniqueArc};
use vrt::arena::{self, cap, suspend};

// ------------------------------------------------------------------ recording serializer
#[derive(Debug, Clone, PartialEq)]
pub struct SErr(String);
impl fmt::Display for SErr {
    fn fmt(&self, f: &mut fmt::Formatter<'_>) -> fmt::Result {
        write!(f, "{}", self.0)
    }
}
impl std::error::Error for SErr {}
impl ser::Error for SErr {
    fn custom<T: fmt::Display>(m: T) -> Self {
        SErr(format!("custom:{}", m))
    }
}
impl de::Error for SErr {
    fn custom<T: fmt::Display>(m: T) -> Self {
        SErr(format!("custom:{}", m))
    }
}

#[derive(Clone)]
pub struct Rec {
    log: Rc<RefCell<Vec<String>>>,
    fail_at: usize,
    /// the injected fault is a panic instead of an error
    panics: bool,
}
impl Rec {
    fn new(fail_at: usize) -> Rec {
        Rec { log: Rc::new(RefCell::new(vec![])), fail_at, panics: false }
    }
    fn new_panicking(fail_at: usize) -> Rec {
        Rec { log: Rc::new(RefCell::new(vec![])), fail_at, panics: true }
    }
    fn tick(&self, what: String) -> Result<(), SErr> {
        let n = {
            let mut l = self.log.borrow_mut();
            l.push(what);
            l.len()
        };
        if n == self.fail_at && self.panics {
            suspend(|| panic!("injected panic in a serializer call"))
        }
        if n == self.fail_at {
            Err(SErr(format!("injected failure at serializer call {}", n)))
        } else {
            Ok(())
        }
    }
}
macro_rules! prim {
    ($($m:ident: $t:ty),*) => { $( fn $m(self, v: $t) -> Result<(), SErr> { self.tick(format!("{}({:?})", stringify!($m), v)) } )* };
}
thread_local! {
    /// what the harness's serializer and deserializer answer to is_human_readable()
    static HUMAN: std::cell::Cell<bool> = const { std::cell::Cell::new(true) };
}
impl Serializer for Rec {
    type Ok = ();
    type Error = SErr;
    fn is_human_readable(&self) -> bool {
        HUMAN.with(|h| h.get())
    }
    type SerializeSeq = Rec;
    type SerializeTuple = Rec;
    type SerializeTupleStruct = Rec;
    type SerializeTupleVariant = Rec;
    type SerializeMap = Rec;
    type SerializeStruct = Rec;
    type SerializeStructVariant = Rec;
    prim!(serialize_bool: bool, serialize_i8: i8, serialize_i16: i16, serialize_i32: i32, serialize_i64: i64, serialize_u8: u8, serialize_u16: u16, serialize_u32: u32, serialize_u64: u64, serialize_f32: f32, serialize_f64: f64, serialize_char: char, serialize_str: &str, serialize_bytes: &[u8]);
    fn serialize_none(self) -> Result<(), SErr> {
        self.tick("serialize_none".into())
    }
    fn serialize_some<T: ?Sized + Serialize>(self, v: &T) -> Result<(), SErr> {
        self.tick("serialize_some".into())?;
        v.serialize(self)
    }
    fn serialize_unit(self) -> Result<(), SErr> {
        self.tick("serialize_unit".into())
    }
    fn serialize_unit_struct(self, n: &'static str) -> Result<(), SErr> {
        self.tick(format!("serialize_unit_struct({})", n))
    }
    fn serialize_unit_variant(self, n: &'static str, i: u32, v: &'static str) -> Result<(), SErr> {
        self.tick(format!("serialize_unit_variant({},{},{})", n, i, v))
    }
    fn serialize_newtype_struct<T: ?Sized + Serialize>(self, n: &'static str, v: &T) -> Result<(), SErr> {
        self.tick(format!("serialize_newtype_struct({})", n))?;
        v.serialize(self)
    }
    fn serialize_newtype_variant<T: ?Sized + Serialize>(self, n: &'static str, i: u32, var: &'static str, v: &T) -> Result<(), SErr> {
        self.tick(format!("serialize_newtype_variant({},{},{})", n, i, var))?;
        v.serialize(self)
    }
    fn serialize_seq(self, len: Option<usize>) -> Result<Rec, SErr> {
        self.tick(format!("serialize_seq({:?})", len))?;
        Ok(self)
    }
    fn serialize_tuple(self, len: usize) -> Result<Rec, SErr> {
        self.tick(format!("serialize_tuple({})", len))?;
        Ok(self)
    }
    fn serialize_tuple_struct(self, n: &'static str, len: usize) -> Result<Rec, SErr> {
        self.tick(format!("serialize_tuple_struct({},{})", n, len))?;
        Ok(self)
    }
    fn serialize_tuple_variant(self, n: &'static str, i: u32, v: &'static str, len: usize) -> Result<Rec, SErr> {
        self.tick(format!("serialize_tuple_variant({},{},{},{})", n, i, v, len))?;
        Ok(self)
    }
    fn serialize_map(self, len: Option<usize>) -> Result<Rec, SErr> {
        self.tick(format!("serialize_map({:?})", len))?;
        Ok(self)
    }
    fn serialize_struct(self, n: &'static str, len: usize) -> Result<Rec, SErr> {
        self.tick(format!("serialize_struct({},{})", n, len))?;
        Ok(self)
    }
    fn serialize_struct_variant(self, n: &'static str, i: u32, v: &'static str, len: usize) -> Result<Rec, SErr> {
        self.tick(format!("serialize_struct_variant({},{},{},{})", n, i, v, len))?;
        Ok(self)
    }
}
macro_rules! compound {
    ($tr:ident, $f:ident) => {
        impl $tr for Rec {
            type Ok = ();
            type Error = SErr;
            fn $f<T: ?Sized + Serialize>(&mut self, v: &T) -> Result<(), SErr> {
                self.tick(stringify!($f).into())?;
                v.serialize(self.clone())
            }
            fn end(self) -> Result<(), SErr> {
                self.tick(concat!(stringify!($tr), "::end").into())
            }
        }
    };
}
compound!(SerializeSeq, serialize_element);
compound!(SerializeTuple, serialize_element);
compound!(SerializeTupleStruct, serialize_field);
compound!(SerializeTupleVariant, serialize_field);
impl SerializeMap for Rec {
    type Ok = ();
    type Error = SErr;
    fn serialize_key<T: ?Sized + Serialize>(&mut self, k: &T) -> Result<(), SErr> {
        self.tick("serialize_key".into())?;
        k.serialize(self.clone())
    }
    fn serialize_value<T: ?Sized + Serialize>(&mut self, v: &T) -> Result<(), SErr> {
        self.tick("serialize_value".into())?;
        v.serialize(self.clone())
    }
    fn end(self) -> Result<(), SErr> {
        self.tick("SerializeMap::end".into())
    }
}
impl SerializeStruct for Rec {
    type Ok = ();
    type Error = SErr;
    fn serialize_field<T: ?Sized + Serialize>(&mut self, k: &'static str, v: &T) -> Result<(), SErr> {
        self.tick(format!("struct_field({})", k))?;
        v.serialize(self.clone())
    }
    fn end(self) -> Result<(), SErr> {
        self.tick("SerializeStruct::end".into())
    }
}
impl SerializeStructVariant for Rec {
    type Ok = ();
    type Error = SErr;
    fn serialize_field<T: ?Sized + Serialize>(&mut self, k: &'static str, v: &T) -> Result<(), SErr> {
        self.tick(format!("struct_variant_field({})", k))?;
        v.serialize(self.clone())
    }
    fn end(self) -> Result<(), SErr> {
        self.tick("SerializeStructVariant::end".into())
    }
}

// ------------------------------------------------------------------ payloads with hand-written impls
#[derive(Debug, Clone, PartialEq)]
pub struct Pt {
    x: u8,
    y: String,
    z: Vec<u16>,
}
/// zero-sized payload whose serializer call is not `serialize_unit`
#[derive(Clone, Copy, Debug, PartialEq)]
struct Zs;
impl Serialize for Zs {
    fn serialize<S: Serializer>(&self, s: S) -> Result<S::Ok, S::Error> {
        s.serialize_unit_struct("Zs")
    }
}
impl<'de> Deserialize<'de> for Zs {
    fn deserialize<D: Deserializer<'de>>(d: D) -> Result<Zs, D::Error> {
        struct ZV;
        impl<'de> Visitor<'de> for ZV {
            type Value = Zs;
            fn expecting(&self, f: &mut fmt::Formatter) -> fmt::Result {
                f.write_str("unit struct Zs")
            }
            fn visit_unit<E: de::Error>(self) -> Result<Zs, E> {
                Ok(Zs)
            }
        }
        d.deserialize_unit_struct("Zs", ZV)
    }
}
impl Serialize for Pt {
    fn serialize<S: Serializer>(&self, s: S) -> Result<S::Ok, S::Error> {
        let mut st = s.serialize_struct("Pt", 3)?;
        st.serialize_field("x", &self.x)?;
        st.serialize_field("y", &self.y)?;
        st.serialize_field("z", &self.z)?;
        st.end()
    }
}
impl<'de> Deserialize<'de> for Pt {
    fn deserialize<D: Deserializer<'de>>(d: D) -> Result<Pt, D::Error> {
        struct V;
        impl<'de> Visitor<'de> for V {
            type Value = Pt;
            fn expecting(&self, f: &mut fmt::Formatter) -> fmt::Result {
                f.write_str("a Pt")
            }
            fn visit_seq<A: SeqAccess<'de>>(self, mut a: A) -> Result<Pt, A::Error> {
                let x = a.next_element()?.ok_or_else(|| de::Error::invalid_length(0, &self))?;
                let y = a.next_element()?.ok_or_else(|| de::Error::invalid_length(1, &self))?;
                let z = a.next_element()?.ok_or_else(|| de::Error::invalid_length(2, &self))?;
                Ok(Pt { x, y, z })
            }
            fn visit_map<A: MapAccess<'de>>(self, mut a: A) -> Result<Pt, A::Error> {
                let (mut x, mut y, mut z) = (None, None, None);
                while let Some(k) = a.next_key::<String>()? {
                    match k.as_str() {
                        "x" => x = Some(a.next_value()?),
                        "y" => y = Some(a.next_value()?),
                        "z" => z = Some(a.next_value()?),
                        other => return Err(de::Error::unknown_field(other, &["x", "y", "z"])),
                    }
                }
                Ok(Pt { x: x.ok_or_else(|| de::Error::missing_field("x"))?, y: y.ok_or_else(|| de::Error::missing_field("y"))?, z: z.ok_or_else(|| de::Error::missing_field("z"))? })
            }
        }
        d.deserialize_struct("Pt", &["x", "y", "z"], V)
    }
}
#[derive(Debug, Clone, PartialEq)]
pub enum En {
    A,
    B(u8),
    C { p: Pt },
    D(u8, String),
}
impl Serialize for En {
    fn serialize<S: Serializer>(&self, s: S) -> Result<S::Ok, S::Error> {
        match self {
            En::A => s.serialize_unit_variant("En", 0, "A"),
            En::B(v) => s.serialize_newtype_variant("En", 1, "B", v),
            En::C { p } => {
                let mut sv = s.serialize_struct_variant("En", 2, "C", 1)?;
                sv.serialize_field("p", p)?;
                sv.end()
            }
            En::D(a, b) => {
                let mut tv = s.serialize_tuple_variant("En", 3, "D", 2)?;
                tv.serialize_field(a)?;
                tv.serialize_field(b)?;
                tv.end()
            }
        }
    }
}
impl<'de> Deserialize<'de> for En {
    fn deserialize<D: Deserializer<'de>>(d: D) -> Result<En, D::Error> {
        struct V;
        impl<'de> Visitor<'de> for V {
            type Value = En;
            fn expecting(&self, f: &mut fmt::Formatter) -> fmt::Result {
                f.write_str("an En")
            }
            fn visit_enum<A: EnumAccess<'de>>(self, a: A) -> Result<En, A::Error> {
                let (tag, var): (String, _) = a.variant()?;
                match tag.as_str() {
                    "A" => {
                        var.unit_variant()?;
                        Ok(En::A)
                    }
                    "B" => Ok(En::B(var.newtype_variant()?)),
                    other => Err(de::Error::unknown_variant(other, &["A", "B"])),
                }
            }
        }
        d.deserialize_enum("En", &["A", "B"], V)
    }
}
/// a payload larger than a page (any size-dependent fast path in the handle's impls)
#[derive(Clone, PartialEq)]
pub struct Huge {
    tag: u8,
    pad: [u8; 8192],
}
impl fmt::Debug for Huge {
    fn fmt(&self, f: &mut fmt::Formatter<'_>) -> fmt::Result {
        write!(f, "Huge({})", self.tag)
    }
}
impl Serialize for Huge {
    fn serialize<S: Serializer>(&self, s: S) -> Result<S::Ok, S::Error> {
        s.serialize_newtype_struct("Huge", &self.tag)
    }
}
impl<'de> Deserialize<'de> for Huge {
    fn deserialize<D: Deserializer<'de>>(d: D) -> Result<Huge, D::Error> {
        let tag = u8::deserialize(d)?;
        Ok(Huge { tag, pad: [tag; 8192] })
    }
}
/// newtype + map + option + bytes paths
#[derive(Debug, Clone, PartialEq)]
pub struct Wr(Option<std::collections::BTreeMap<String, i64>>);
impl Serialize for Wr {
    fn serialize<S: Serializer>(&self, s: S) -> Result<S::Ok, S::Error> {
        s.serialize_newtype_struct("Wr", &self.0)
    }
}

// ------------------------------------------------------------------ value-tree deserializer with fault injection
#[derive(Debug, Clone, PartialEq)]
pub enum V {
    U(u64),
    I(i64),
    S(String),
    Seq(Vec<V>),
    Map(Vec<(V, V)>),
    Unit,
    Variant(String, Option<Box<V>>),
}
#[derive(Clone)]
pub struct De {
    v: V,
    calls: Rc<RefCell<usize>>,
    fail_at: usize,
    /// the injected fault is a panic instead of an error
    panics: bool,
}
impl De {
    fn tick(&self) -> Result<(), SErr> {
        let n = {
            let mut c = self.calls.borrow_mut();
            *c += 1;
            *c
        };
        if n == self.fail_at && self.panics {
            suspend(|| panic!("injected panic in a deserializer callback"))
        }
        if n == self.fail_at {
            Err(SErr(format!("injected failure at deserializer callback {}", n)))
        } else {
            Ok(())
        }
    }
    fn child(&self, v: V) -> De {
        De { v, calls: self.calls.clone(), fail_at: self.fail_at, panics: self.panics }
    }
}
impl<'de> Deserializer<'de> for De {
    type Error = SErr;
    fn is_human_readable(&self) -> bool {
        HUMAN.with(|h| h.get())
    }
    fn deserialize_any<Vi: Visitor<'de>>(self, vis: Vi) -> Result<Vi::Value, SErr> {
        self.tick()?;
        match self.v.clone() {
            V::U(u) => vis.visit_u64(u),
            V::I(i) => vis.visit_i64(i),
            V::S(s) => vis.visit_string(s),
            V::Unit => vis.visit_unit(),
            V::Seq(items) => vis.visit_seq(SeqDe { de: self.clone(), items: items.into_iter() }),
            V::Map(items) => vis.visit_map(MapDe { de: self.clone(), items: items.into_iter(), pending: None }),
            V::Variant(..) => vis.visit_enum(self),
        }
    }
    fn deserialize_option<Vi: Visitor<'de>>(self, vis: Vi) -> Result<Vi::Value, SErr> {
        self.tick()?;
        match self.v {
            V::Unit => vis.visit_none(),
            _ => vis.visit_some(self),
        }
    }
    fn deserialize_enum<Vi: Visitor<'de>>(self, _n: &'static str, _v: &'static [&'static str], vis: Vi) -> Result<Vi::Value, SErr> {
        self.tick()?;
        match &self.v {
            V::Variant(..) => vis.visit_enum(self),
            V::S(s) => vis.visit_enum(s.clone().into_deserializer()),
            other => Err(de::Error::custom(format!("expected an enum, found {:?}", other))),
        }
    }
    serde::forward_to_deserialize_any! { bool i8 i16 i32 i64 i128 u8 u16 u32 u64 u128 f32 f64 char str string bytes byte_buf unit unit_struct newtype_struct seq tuple tuple_struct map struct identifier ignored_any }
}
impl<'de> EnumAccess<'de> for De {
    type Error = SErr;
    type Variant = De;
    fn variant_seed<S: DeserializeSeed<'de>>(self, seed: S) -> Result<(S::Value, De), SErr> {
        self.tick()?;
        let V::Variant(tag, body) = self.v.clone() else { return Err(de::Error::custom("not a variant")) };
        let t = seed.deserialize(self.child(V::S(tag)))?;
        Ok((t, self.child(body.map(|b| *b).unwrap_or(V::Unit))))
    }
}
impl<'de> VariantAccess<'de> for De {
    type Error = SErr;
    fn unit_variant(self) -> Result<(), SErr> {
        self.tick()
    }
    fn newtype_variant_seed<S: DeserializeSeed<'de>>(self, seed: S) -> Result<S::Value, SErr> {
        self.tick()?;
        seed.deserialize(self)
    }
    fn tuple_variant<Vi: Visitor<'de>>(self, _l: usize, vis: Vi) -> Result<Vi::Value, SErr> {
        self.deserialize_any(vis)
    }
    fn struct_variant<Vi: Visitor<'de>>(self, _f: &'static [&'static str], vis: Vi) -> Result<Vi::Value, SErr> {
        self.deserialize_any(vis)
    }
}
struct SeqDe {
    de: De,
    items: std::vec::IntoIter<V>,
}
impl<'de> SeqAccess<'de> for SeqDe {
    type Error = SErr;
    fn next_element_seed<S: DeserializeSeed<'de>>(&mut self, seed: S) -> Result<Option<S::Value>, SErr> {
        self.de.tick()?;
        match self.items.next() {
            None => Ok(None),
            Some(v) => seed.deserialize(self.de.child(v)).map(Some),
        }
    }
}
struct MapDe {
    de: De,
    items: std::vec::IntoIter<(V, V)>,
    pending: Option<V>,
}
impl<'de> MapAccess<'de> for MapDe {
    type Error = SErr;
    fn next_key_seed<S: DeserializeSeed<'de>>(&mut self, seed: S) -> Result<Option<S::Value>, SErr> {
        self.de.tick()?;
        match self.items.next() {
            None => Ok(None),
            Some((k, v)) => {
                self.pending = Some(v);
                seed.deserialize(self.de.child(k)).map(Some)
            }
        }
    }
    fn next_value_seed<S: DeserializeSeed<'de>>(&mut self, seed: S) -> Result<S::Value, SErr> {
        self.de.tick()?;
        seed.deserialize(self.de.child(self.pending.take().unwrap_or(V::Unit)))
    }
}

// ------------------------------------------------------------------ the grids
fn ser_case<T: Serialize + Clone + fmt::Debug>(g: &mut Grid, tname: &str, v: &T) {
    let base = Rec::new(0);
    let r0 = v.serialize(base.clone());
    let calls = base.log.borrow().len();
    if r0.is_err() {
        g.fail("machinery:serialize", tname, "fault-free serialization failed".into());
    }
    let a = Arc::new(v.clone());
    let u = UniqueArc::new(v.clone());
    for k in 0..=calls + 1 {
        let case = format!("serialize {} {:?} failing at serializer call {}", tname, v, k);
        g.case(format!("ser|{}|{}|{}", tname, calls, if k == 0 || k > calls { "ok" } else { "fail" }), || case.clone());
        let want = Rec::new(k);
        let rw = v.serialize(want.clone());
        for (kind, got, rg) in [
            ("Arc<T>", Rec::new(k), 0u8),
            ("UniqueArc<T>", Rec::new(k), 1u8),
        ] {
            let r = if rg == 0 { a.serialize(got.clone()) } else { u.serialize(got.clone()) };
            if *got.log.borrow() != *want.log.borrow() {
                g.fail(&format!("serialize-calls:{}", kind), &case, format!("serializer calls through {} {:?} differ from those of the value {:?}", kind, got.log.borrow(), want.log.borrow()));
            }
            if r != rw {
                g.fail(&format!("serialize-result:{}", kind), &case, format!("result {:?} vs {:?} for the value", r, rw));
            }
        }
        if Arc::count(&a) != 1 {
            g.fail("serialize-count", &case, "serialising changed the count".into());
        }
    }
}

fn de_case<T: for<'a> Deserialize<'a> + PartialEq + fmt::Debug>(g: &mut Grid, tname: &str, input: &V) {
    let probe = De { v: input.clone(), calls: Default::default(), fail_at: 0, panics: false };
    let _ = T::deserialize(probe.clone());
    let calls = *probe.calls.borrow();
    for k in 0..=calls + 1 {
        let case = format!("deserialize {} from {:?} failing at deserializer callback {}", tname, input, k);
        let mk = || De { v: input.clone(), calls: Default::default(), fail_at: k, panics: false };
        vrt::begin_execution();
        let dv = suspend(mk);
        let rv: Result<T, SErr> = cap(|| T::deserialize(dv));
        let live_v = arena::live_blocks().len();
        g.case(format!("de|{}|{}|{}", tname, calls, rv.is_ok()), || format!("{} -> {}", case, if rv.is_ok() { "Ok" } else { "Err" }));
        let rv2: Result<T, SErr> = match rv {
            Ok(v) => {
                // keep the value but release its memory accounting for the next run
                let s = suspend(|| format!("{:?}", v));
                cap(|| drop(v));
                let _ = s;
                let dv = suspend(mk);
                suspend(|| T::deserialize(dv))
            }
            Err(e) => {
                // the error's text lives in the arena of this execution: copy it out before the reset
                let copy = suspend(|| SErr(e.0.as_str().to_owned()));
                cap(|| drop(e));
                Err(copy)
            }
        };
        for kind in ["Arc<T>", "UniqueArc<T>"] {
            vrt::begin_execution();
            let d = suspend(mk);
            enum H<T> {
                A(Arc<T>),
                U(UniqueArc<T>),
            }
            let r: Result<H<T>, SErr> = cap(|| if kind == "Arc<T>" { Arc::<T>::deserialize(d).map(H::A) } else { UniqueArc::<T>::deserialize(d).map(H::U) });
            match (&r, &rv2) {
                (Ok(h), Ok(v)) => {
                    let (val, cnt, blk): (&T, usize, usize) = match h {
                        H::A(a) => (&**a, Arc::count(a), a.heap_ptr() as usize),
                        H::U(u) => (&**u, 1, 0),
                    };
                    if val != v {
                        g.fail(&format!("deserialize-value:{}", kind), &case, format!("handle holds {:?}, the value's own deserializer yields {:?}", val, v));
                    }
                    if cnt != 1 {
                        g.fail(&format!("deserialize-count:{}", kind), &case, format!("fresh handle reports count {}", cnt));
                    }
                    let live = arena::live_blocks().len();
                    if live != live_v + 1 {
                        g.fail(&format!("deserialize-allocations:{}", kind), &case, format!("{} live blocks, expected the value's {} + 1 for the shared allocation", live, live_v));
                    }
                    let _ = blk;
                }
                (Err(e), Err(w)) => {
                    if e != w {
                        g.fail(&format!("deserialize-error:{}", kind), &case, format!("error {:?}, the value's own deserializer reports {:?}", e, w));
                    }
                    // what is still allocated now may only belong to the error value itself
                    let before = arena::live_blocks().len();
                    let owned_by_error = {
                        let e2 = cap(|| e.clone());
                        let n = arena::live_blocks().len() - before;
                        cap(|| drop(e2));
                        n
                    };
                    if before > owned_by_error {
                        g.fail(&format!("deserialize-error-leak:{}", kind), &case, format!("a failed deserialisation left allocations behind: {:?}", arena::live_blocks()));
                    }
                }
                (a, b) => g.fail(&format!("deserialize-verdict:{}", kind), &case, format!("handle: {}, value: {}", if a.is_ok() { "Ok" } else { "Err" }, if b.is_ok() { "Ok" } else { "Err" })),
            }
            cap(|| drop(r));
            if !arena::live_blocks().is_empty() || arena::n_errors() != 0 {
                g.fail("deserialize-release", &case, format!("after dropping the handle: live {:?} errors {:?}", arena::live_blocks(), arena::errors_since(0)));
            }
        }
    }
}

/// `Deserialize::deserialize_in_place` on a handle that already holds a value (possibly shared):
/// success leaves a fresh sole owner of the new value and the sibling untouched; failure leaves the
/// place exactly as it was; nothing leaks and nothing is destroyed twice.
fn inplace_case<T: for<'a> Deserialize<'a> + PartialEq + fmt::Debug + Clone>(g: &mut Grid, tname: &str, input: &V, old: &T) {
    let probe = De { v: input.clone(), calls: Default::default(), fail_at: 0, panics: false };
    let _ = T::deserialize(probe.clone());
    let calls = *probe.calls.borrow();
    for k in 0..=calls + 1 {
        let mk = || De { v: input.clone(), calls: Default::default(), fail_at: k, panics: false };
        let want: Result<T, SErr> = suspend(|| T::deserialize(mk()));
        for (kind, shared) in [("Arc<T>", false), ("Arc<T>", true), ("UniqueArc<T>", false)] {
            let case = format!("deserialize_in_place {} ({}) from {:?} failing at callback {}", kind, if shared { "place shared with a sibling" } else { "sole owner" }, input, k);
            vrt::begin_execution();
            g.case(format!("inplace|{}|{}|{}|{}", tname, kind, shared, want.is_ok()), || case.clone());
            if kind == "Arc<T>" {
                let mut place = cap(|| Arc::new(old.clone()));
                let sibling = if shared { Some(cap(|| place.clone())) } else { None };
                let blk = place.heap_ptr() as usize;
                let d = suspend(mk);
                let r: Result<(), SErr> = cap(|| Deserialize::deserialize_in_place(d, &mut place));
                match (&r, &want) {
                    (Ok(()), Ok(v)) => {
                        if *place != *v || Arc::count(&place) != 1 {
                            g.fail("inplace-result:Arc<T>", &case, format!("place holds {:?} with count {}, expected a sole owner of {:?}", *place, Arc::count(&place), v));
                        }
                        if let Some(s) = &sibling {
                            if **s != *old || Arc::count(s) != 1 || s.heap_ptr() as usize != blk || place.heap_ptr() as usize == blk {
                                g.fail("inplace-sibling:Arc<T>", &case, format!("the sibling of the old value now reads {:?} with count {} (place and sibling share a block: {})", **s, Arc::count(s), place.heap_ptr() == s.heap_ptr()));
                            }
                        }
                    }
                    (Err(e), Err(w)) => {
                        if e != w {
                            g.fail("inplace-error:Arc<T>", &case, format!("error {:?}, the value's own deserializer reports {:?}", e, w));
                        }
                        if *place != *old || place.heap_ptr() as usize != blk || Arc::count(&place) != 1 + shared as usize {
                            g.fail("inplace-failed-place-changed:Arc<T>", &case, format!("after the failed call the place reads {:?} (count {}), it held {:?}", *place, Arc::count(&place), old));
                        }
                        if let Some(s) = &sibling {
                            if **s != *old {
                                g.fail("inplace-sibling:Arc<T>", &case, format!("a failed in-place deserialisation changed the sibling's value to {:?}", **s));
                            }
                        }
                    }
                    (a, b) => g.fail("inplace-verdict:Arc<T>", &case, format!("handle: {}, value: {}", if a.is_ok() { "Ok" } else { "Err" }, if b.is_ok() { "Ok" } else { "Err" })),
                }
                cap(|| drop((r, place, sibling)));
            } else {
                let mut place = cap(|| UniqueArc::new(old.clone()));
                let d = suspend(mk);
                let r: Result<(), SErr> = cap(|| Deserialize::deserialize_in_place(d, &mut place));
                match (&r, &want) {
                    (Ok(()), Ok(v)) => {
                        if *place != *v {
                            g.fail("inplace-result:UniqueArc<T>", &case, format!("place holds {:?}, expected {:?}", *place, v));
                        }
                    }
                    (Err(e), Err(w)) => {
                        if e != w {
                            g.fail("inplace-error:UniqueArc<T>", &case, format!("error {:?} vs {:?}", e, w));
                        }
                        if *place != *old {
                            g.fail("inplace-failed-place-changed:UniqueArc<T>", &case, format!("after the failed call the place reads {:?}, it held {:?}", *place, old));
                        }
                    }
                    (a, b) => g.fail("inplace-verdict:UniqueArc<T>", &case, format!("handle: {}, value: {}", if a.is_ok() { "Ok" } else { "Err" }, if b.is_ok() { "Ok" } else { "Err" })),
                }
                cap(|| drop((r, place)));
            }
            if !arena::live_blocks().is_empty() || arena::n_errors() != 0 {
                g.fail("inplace-release", &case, format!("after dropping everything: live {:?} allocator errors {:?}", arena::live_blocks(), arena::errors_since(0)));
            }
        }
    }
}

/// The injected fault is a *panic* in the k-th serializer call: the handle's impl must panic exactly
/// when the value's does, after the same calls, and leave the handle as it was.
fn ser_panic_case<T: Serialize + Clone + fmt::Debug>(g: &mut Grid, tname: &str, v: &T) {
    let base = Rec::new(0);
    let _ = v.serialize(base.clone());
    let calls = base.log.borrow().len();
    let a = Arc::new(v.clone());
    let a2 = a.clone();
    let u = UniqueArc::new(v.clone());
    for k in 1..=calls {
        let case = format!("serialize {} {:?} panicking in serializer call {}", tname, v, k);
        g.case(format!("ser-panic|{}|{}", tname, calls), || case.clone());
        let want = Rec::new_panicking(k);
        let rw = vrt::catch(|| v.serialize(want.clone())).is_err();
        for kind in ["Arc<T>", "UniqueArc<T>"] {
            let got = Rec::new_panicking(k);
            let r = vrt::catch(|| if kind == "Arc<T>" { a.serialize(got.clone()) } else { u.serialize(got.clone()) }).is_err();
            if r != rw || *got.log.borrow() != *want.log.borrow() {
                g.fail(&format!("serialize-panic:{}", kind), &case, format!("through {}: panicked={} after calls {:?}; the value: panicked={} after {:?}", kind, r, got.log.borrow(), rw, want.log.borrow()));
            }
        }
        if Arc::count(&a) != 2 || !Arc::ptr_eq(&a, &a2) {
            g.fail("serialize-panic-count", &case, format!("count {} after the panic (2 handles)", Arc::count(&a)));
        }
    }
}

/// The injected fault is a *panic* in the k-th deserializer callback: it propagates (exactly when
/// the value's own deserializer panics), nothing stays allocated, and a place handed to
/// deserialize_in_place is left as it was.
fn de_panic_case<T: for<'a> Deserialize<'a> + PartialEq + fmt::Debug + Clone>(g: &mut Grid, tname: &str, input: &V, old: &T) {
    let probe = De { v: input.clone(), calls: Default::default(), fail_at: 0, panics: false };
    let _ = T::deserialize(probe.clone());
    let calls = *probe.calls.borrow();
    for k in 1..=calls {
        let mk = || De { v: input.clone(), calls: Default::default(), fail_at: k, panics: true };
        let want_panic = suspend(|| vrt::catch(|| T::deserialize(mk()).is_ok()).is_err());
        for kind in ["Arc<T>", "UniqueArc<T>", "in_place Arc<T>", "in_place shared Arc<T>", "in_place UniqueArc<T>"] {
            let case = format!("deserialize {} {} from {:?} panicking in deserializer callback {}", kind, tname, input, k);
            vrt::begin_execution();
            g.case(format!("de-panic|{}|{}|{}", tname, kind, want_panic), || case.clone());
            let d = suspend(mk);
            match kind {
                "Arc<T>" | "UniqueArc<T>" => {
                    let r = vrt::catch(|| cap(|| if kind == "Arc<T>" { drop(Arc::<T>::deserialize(d)) } else { drop(UniqueArc::<T>::deserialize(d)) }));
                    if r.is_err() != want_panic {
                        g.fail(&format!("deserialize-panic-verdict:{}", kind), &case, format!("panicked={}, the value's own deserializer: {}", r.is_err(), want_panic));
                    }
                }
                "in_place UniqueArc<T>" => {
                    let mut place = cap(|| UniqueArc::new(old.clone()));
                    let r = vrt::catch(|| cap(|| Deserialize::deserialize_in_place(d, &mut place).is_ok()));
                    if r.is_err() != want_panic {
                        g.fail("deserialize-panic-verdict:in_place UniqueArc<T>", &case, format!("panicked={}, the value's own deserializer: {}", r.is_err(), want_panic));
                    }
                    if r.is_err() && *place != *old {
                        g.fail("deserialize-panic-place-changed:UniqueArc<T>", &case, format!("after the panic the place reads {:?}, it held {:?}", *place, old));
                    }
                    cap(|| drop(place));
                }
                _ => {
                    let shared = kind == "in_place shared Arc<T>";
                    let mut place = cap(|| Arc::new(old.clone()));
                    let sibling = if shared { Some(cap(|| place.clone())) } else { None };
                    let blk = place.heap_ptr() as usize;
                    let r = vrt::catch(|| cap(|| Deserialize::deserialize_in_place(d, &mut place).is_ok()));
                    if r.is_err() != want_panic {
                        g.fail("deserialize-panic-verdict:in_place Arc<T>", &case, format!("panicked={}, the value's own deserializer: {}", r.is_err(), want_panic));
                    }
                    if r.is_err() && (*place != *old || place.heap_ptr() as usize != blk || Arc::count(&place) != 1 + shared as usize) {
                        g.fail("deserialize-panic-place-changed:Arc<T>", &case, format!("after the panic the place reads {:?} (count {}), it held {:?}", *place, Arc::count(&place), old));
                    }
                    if let Some(s) = &sibling {
                        if **s != *old {
                            g.fail("deserialize-panic-sibling:Arc<T>", &case, format!("the sibling now reads {:?}", **s));
                        }
                    }
                    cap(|| drop((place, sibling)));
                }
            }
            if !arena::live_blocks().is_empty() || arena::n_errors() != 0 {
                g.fail(&format!("deserialize-panic-leak:{}", kind), &case, format!("after the unwind (and dropping the place): live {:?} allocator errors {:?}", arena::live_blocks(), arena::errors_since(0)));
            }
        }
    }
}

pub fn panic_grid() -> Grid {
    let mut g = Grid::new("c17.panic", "serializer / deserializer callbacks that PANIC at each k-th call (k = 1..calls), through Arc<T>, UniqueArc<T> and deserialize_in_place on sole, shared and unique places: the panic propagates exactly when the value's own impl panics, after the same calls; counts unchanged, the place as it was, nothing left allocated");
    let pts = [Pt { x: 1, y: "p".into(), z: vec![] }, Pt { x: 2, y: String::new(), z: vec![5, 6] }];
    ser_panic_case(&mut g, "u8", &7u8);
    ser_panic_case(&mut g, "String", &"héllo".to_string());
    ser_panic_case(&mut g, "(u8,String)", &(9u8, "xy".to_string()));
    ser_panic_case(&mut g, "Vec<u16>", &vec![1u16, 2, 3]);
    for p in &pts {
        ser_panic_case(&mut g, "Pt(struct)", p);
    }
    for e in [En::A, En::B(4), En::C { p: pts[1].clone() }, En::D(1, "d".into())] {
        ser_panic_case(&mut g, "En(enum)", &e);
    }
    ser_panic_case(&mut g, "Huge(8 KiB)", &Huge { tag: 3, pad: [3; 8192] });
    let s = |x: &str| V::S(x.to_string());
    let inputs: Vec<V> = vec![V::U(7), s("text"), V::Seq(vec![V::U(1), V::U(2), V::U(3)]), V::Seq(vec![V::U(9), s("xy")]), V::Seq(vec![V::U(1), s("p"), V::Seq(vec![V::U(5)])]), V::Map(vec![(s("x"), V::U(1)), (s("y"), s("q")), (s("z"), V::Seq(vec![]))]), V::Variant("B".into(), Some(Box::new(V::U(4))))];
    let old_pt = Pt { x: 200, y: "old value kept on the heap".into(), z: vec![1, 2, 3] };
    for inp in &inputs {
        de_panic_case::<u8>(&mut g, "u8", inp, &77);
        de_panic_case::<String>(&mut g, "String", inp, &"old string on the heap".to_string());
        de_panic_case::<Vec<u16>>(&mut g, "Vec<u16>", inp, &vec![9, 9, 9, 9]);
        de_panic_case::<(u8, String)>(&mut g, "(u8,String)", inp, &(5, "old".to_string()));
        de_panic_case::<Pt>(&mut g, "Pt(struct)", inp, &old_pt);
        de_panic_case::<Huge>(&mut g, "Huge(8 KiB)", inp, &Huge { tag: 9, pad: [9; 8192] });
    }
    g
}

pub fn run(tier: &str) -> Vec<Grid> {
    // everything twice: with a (de)serializer that calls itself human readable, and with one that does not
    let mut all = run_mode(tier);
    HUMAN.with(|h| h.set(false));
    for mut g in run_mode(tier) {
        g.name = match g.name {
            "c17.serialize" => "c17.serialize.binary-format",
            "c17.deserialize" => "c17.deserialize.binary-format",
            "c17.in_place" => "c17.in_place.binary-format",
            _ => "c17.panic.binary-format",
        };
        all.push(g);
    }
    HUMAN.with(|h| h.set(true));
    all
}

fn run_mode(_tier: &str) -> Vec<Grid> {
    let mut g = Grid::new("c17.serialize", "value family (u8, i64, String, (u8,String), Vec<u16> of length 0..3, Option, hand-written struct / enum / newtype+map, five zero-sized payloads with distinct serializer calls, [u64;n] for n in 1,2,4,8,9,16,17,32) x failure injected at each k-th serializer call (k = 0..calls+1); the call log and the result through Arc<T>/UniqueArc<T> must equal those of the value");
    for v in [0u8, 7, 255] {
        ser_case(&mut g, "u8", &v);
    }
    for v in [i64::MIN, -1, 0, 42] {
        ser_case(&mut g, "i64", &v);
    }
    for v in ["", "a", "héllo wörld"] {
        ser_case(&mut g, "String", &v.to_string());
    }
    for v in [(0u8, String::new()), (9, "xy".to_string())] {
        ser_case(&mut g, "(u8,String)", &v);
    }
    for n in 0..=3usize {
        ser_case(&mut g, "Vec<u16>", &(0..n as u16).collect::<Vec<u16>>());
    }
    for v in [None, Some(3u8)] {
        ser_case(&mut g, "Option<u8>", &v);
    }
    let pts = [Pt { x: 1, y: "p".into(), z: vec![] }, Pt { x: 2, y: String::new(), z: vec![5, 6] }];
    for p in &pts {
        ser_case(&mut g, "Pt(struct)", p);
    }
    for e in [En::A, En::B(4), En::C { p: pts[1].clone() }, En::D(1, "d".into())] {
        ser_case(&mut g, "En(enum)", &e);
    }
    let mut m = std::collections::BTreeMap::new();
    m.insert("k1".to_string(), -5i64);
    m.insert("k2".to_string(), 6i64);
    for w in [Wr(None), Wr(Some(Default::default())), Wr(Some(m))] {
        ser_case(&mut g, "Wr(newtype+option+map)", &w);
    }
    ser_case(&mut g, "Arc<Arc<u8>>", &Arc::new(5u8));
    ser_case(&mut g, "Huge(8 KiB)", &Huge { tag: 3, pad: [3; 8192] });
    // zero-sized payloads: the serializer calls still differ by type (unit / unit_struct / tuple(0) / tuple(2))
    ser_case(&mut g, "()", &());
    ser_case(&mut g, "PhantomData<u8>", &std::marker::PhantomData::<u8>);
    ser_case(&mut g, "[u8;0]", &([] as [u8; 0]));
    ser_case(&mut g, "((),())", &((), ()));
    ser_case(&mut g, "Zs(unit struct)", &Zs);
    // size ladder 8..256 bytes
    macro_rules! ser_ladder { ($($n:literal)*) => { $( ser_case(&mut g, concat!("[u64;", $n, "]"), &[0x0101_0101_0101_0101u64 * $n; $n]); )* } }
    ser_ladder!(1 2 4 8 9 16 17 32);

    let mut d = Grid::new("c17.deserialize", "input trees (well-formed and ill-typed) for each payload type (incl. five zero-sized types and a size ladder [u64;n] of 8..256 bytes with well-formed / one-short / ill-typed-in-the-middle sequences) x failure injected at each k-th deserializer callback; Arc<T>/UniqueArc<T> give Ok iff T does, equal value, count 1, exactly one extra allocation; on Err the same error and nothing left allocated");
    let s = |x: &str| V::S(x.to_string());
    let inputs: Vec<V> = vec![V::U(7), V::U(300), V::I(-3), s("text"), s(""), V::Unit, V::Seq(vec![]), V::Seq(vec![V::U(1), V::U(2), V::U(3)]), V::Seq(vec![V::U(9), s("xy")]), V::Seq(vec![V::U(1), s("p"), V::Seq(vec![V::U(5), V::U(70000)])]), V::Seq(vec![V::U(1), s("p"), V::Seq(vec![V::U(5)])]), V::Map(vec![(s("x"), V::U(1)), (s("y"), s("q")), (s("z"), V::Seq(vec![]))]), V::Map(vec![(s("x"), V::U(1)), (s("w"), V::U(2))]), V::Map(vec![(s("y"), s("q"))]), V::Variant("A".into(), None), V::Variant("B".into(), Some(Box::new(V::U(4)))), V::Variant("Z".into(), None), V::Variant("B".into(), Some(Box::new(s("no"))))];
    for inp in &inputs {
        de_case::<u8>(&mut d, "u8", inp);
        de_case::<i64>(&mut d, "i64", inp);
        de_case::<String>(&mut d, "String", inp);
        de_case::<(u8, String)>(&mut d, "(u8,String)", inp);
        de_case::<Vec<u16>>(&mut d, "Vec<u16>", inp);
        de_case::<Option<u8>>(&mut d, "Option<u8>", inp);
        de_case::<Pt>(&mut d, "Pt(struct)", inp);
        de_case::<En>(&mut d, "En(enum)", inp);
        de_case::<Huge>(&mut d, "Huge(8 KiB)", inp);
        de_case::<()>(&mut d, "()", inp);
        de_case::<std::marker::PhantomData<u8>>(&mut d, "PhantomData<u8>", inp);
        de_case::<[u8; 0]>(&mut d, "[u8;0]", inp);
        de_case::<((), ())>(&mut d, "((),())", inp);
        de_case::<Zs>(&mut d, "Zs(unit struct)", inp);
    }
    // size ladder 8..256 bytes: a well-formed sequence, one element short (fails late), one ill-typed element in the middle
    macro_rules! de_ladder { ($($n:literal)*) => { $(
        let full: Vec<V> = (0..$n as u64).map(V::U).collect();
        let mut bad = full.clone();
        bad[$n / 2] = s("x");
        for inp in [V::Seq(full.clone()), V::Seq(full[..$n - 1].to_vec()), V::Seq(bad), V::Unit, s("text")] {
            de_case::<[u64; $n]>(&mut d, concat!("[u64;", $n, "]"), &inp);
        }
    )* } }
    de_ladder!(1 2 4 8 9 16 17 32);
    let mut ip = Grid::new("c17.in_place", "Deserialize::deserialize_in_place on Arc<T> (sole owner / shared with a sibling) and UniqueArc<T> x input tree x failure at each k-th callback: Ok leaves a fresh sole owner and the sibling untouched, Err leaves the place as it was, nothing leaks or is destroyed twice");
    let old_pt = Pt { x: 200, y: "old value kept on the heap".into(), z: vec![1, 2, 3] };
    for inp in &inputs {
        inplace_case::<u8>(&mut ip, "u8", inp, &77);
        inplace_case::<String>(&mut ip, "String", inp, &"old string on the heap".to_string());
        inplace_case::<Vec<u16>>(&mut ip, "Vec<u16>", inp, &vec![9, 9, 9, 9]);
        inplace_case::<Pt>(&mut ip, "Pt(struct)", inp, &old_pt);
        inplace_case::<(u8, String)>(&mut ip, "(u8,String)", inp, &(5, "old".to_string()));
        inplace_case::<Huge>(&mut ip, "Huge(8 KiB)", inp, &Huge { tag: 9, pad: [9; 8192] });
        inplace_case::<()>(&mut ip, "()", inp, &());
        inplace_case::<Zs>(&mut ip, "Zs(unit struct)", inp, &Zs);
    }
    for n in [9usize, 8] {
        let full: Vec<V> = (0..9u64).map(V::U).collect();
        inplace_case::<[u64; 9]>(&mut ip, "[u64;9]", &V::Seq(full[..n].to_vec()), &[0xEEEE_EEEE_EEEE_EEEE; 9]);
    }
    vec![g, d, ip, panic_grid()]
}
