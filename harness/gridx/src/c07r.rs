//! C07, re-entrant user code: the payload's `Clone` (called by make_mut / make_unique /
//! unwrap_or_clone / OffsetArc::make_mut on a shared value) itself releases co-owners and/or adds
//! one, so that the value's destructor can run *inside* the library call; that destructor and the
//! clone can panic. Also: the old value's destructor panicking inside a `with_arc_mut` callback
//! that replaces the Arc. Whatever happens, every handle that survives the call is valid with an
//! accurate count, nothing is destroyed twice and nothing is lost.
use crate::grid::Grid;
use std::cell::{Cell, RefCell};
use triomphe::{Arc, ArcBorrow, ArcUnion, OffsetArc, ThinArc};
use vrt::arena::{self, cap};
use vrt::catch;
use vrt::track::{self, Tracked};

pub struct Re(Tracked<6>);
pub enum RCo {
    A(Arc<Re>),
    O(OffsetArc<Re>),
    U(ArcUnion<u64, Re>),
    R(*const Re),
}
impl RCo {
    fn release(self) {
        match self {
            RCo::R(p) => drop(unsafe { Arc::from_raw(p) }),
            other => drop(other),
        }
    }
    /// (block start, intact, id, val, count)
    fn look(&self) -> (usize, bool, u32, u32, usize) {
        match self {
            RCo::A(x) => (x.heap_ptr() as usize, x.0.peek().intact(), x.0.peek().id, x.0.peek().val, Arc::count(x)),
            RCo::O(x) => (x.with_arc(|a| a.heap_ptr() as usize), x.0.peek().intact(), x.0.peek().id, x.0.peek().val, OffsetArc::strong_count(x)),
            RCo::U(x) => {
                let b = x.as_second().unwrap();
                (b.with_arc(|a| a.heap_ptr() as usize), b.0.peek().intact(), b.0.peek().id, b.0.peek().val, ArcUnion::strong_count(x))
            }
            RCo::R(p) => {
                let b = unsafe { ArcBorrow::from_ptr(*p) };
                (b.with_arc(|a| a.heap_ptr() as usize), b.0.peek().intact(), b.0.peek().id, b.0.peek().val, ArcBorrow::strong_count(&b))
            }
        }
    }
}
thread_local! {
    static STASH: RefCell<[Option<RCo>; 3]> = const { RefCell::new([None, None, None]) };
    /// (mask of stash slots the next Clone releases, whether it adds an owner) — one shot
    static HOOK: Cell<(u8, bool)> = const { Cell::new((0, false)) };
}
impl Clone for Re {
    fn clone(&self) -> Re {
        let (mask, add) = HOOK.with(|h| h.replace((0, false)));
        if add {
            let extra = unsafe { ArcBorrow::from_ptr(self as *const Re) }.clone_arc();
            STASH.with(|s| s.borrow_mut()[2] = Some(RCo::A(extra)));
        }
        for i in 0..2 {
            if mask & (1 << i) != 0 {
                let co = STASH.with(|s| s.borrow_mut()[i].take());
                if let Some(co) = co {
                    co.release();
                }
            }
        }
        Re(self.0.clone())
    }
}

const KINDS: [&str; 4] = ["arc", "offset", "union", "raw"];
fn mk(kind: &str, a: &Arc<Re>) -> RCo {
    match kind {
        "arc" => RCo::A(a.clone()),
        "offset" => RCo::O(Arc::into_raw_offset(a.clone())),
        "union" => RCo::U(ArcUnion::from_second(a.clone())),
        _ => RCo::R(Arc::into_raw(a.clone())),
    }
}

fn is_live(block: usize) -> bool {
    arena::live_blocks().iter().any(|b| b.0 == block)
}

pub fn reentrant_faults(g: &mut Grid) {
    let mut cos: Vec<Vec<&str>> = KINDS.iter().map(|k| vec![*k]).collect();
    for a in KINDS {
        for b in KINDS {
            cos.push(vec![a, b]);
        }
    }
    for api in ["make_mut", "make_unique", "OffsetArc::make_mut", "unwrap_or_clone"] {
        for co in &cos {
            for mask in 0u8..(1 << co.len()) {
                for add in [false, true] {
                    for clone_panics in [false, true] {
                        for drop_panics in [false, true] {
                            one(g, api, co, mask, add, clone_panics, drop_panics, false);
                        }
                        if !clone_panics {
                            // the same call made while the thread is unwinding from an unrelated panic
                            one(g, api, co, mask, add, false, false, true);
                        }
                    }
                }
            }
        }
    }
}

fn one(g: &mut Grid, api: &str, co: &[&str], mask: u8, add: bool, clone_panics: bool, drop_panics: bool, unwinding: bool) {
    let case = format!("{}{} on", if unwinding { "[during an unwind] " } else { "" }, api);
    let case = case + &format!(" a value shared with [{}]; its Clone releases co-owners {:#b}{}{}; first destructor to run {}", co.join(","), mask, if add { " and adds an owner" } else { "" }, if clone_panics { " and then panics" } else { "" }, if drop_panics { "panics" } else { "returns" });
    vrt::begin_execution();
    g.case(format!("reentrant|{}|{}|{}|{}|{}|{}|{}", api, co.join("+"), mask, add, clone_panics, drop_panics, unwinding), || case.clone());
    let a = cap(|| Arc::new(Re(Tracked::new(5))));
    let id = a.0.id();
    let old_block = a.heap_ptr() as usize;
    for (i, k) in co.iter().enumerate() {
        let h = cap(|| mk(k, &a));
        STASH.with(|s| s.borrow_mut()[i] = Some(h));
    }
    enum Keep {
        A(Arc<Re>),
        O(OffsetArc<Re>),
        Gone,
    }
    let mut keep = if api == "OffsetArc::make_mut" { Keep::O(cap(|| Arc::into_raw_offset(a))) } else { Keep::A(a) };
    HOOK.with(|h| h.set((mask, add)));
    track::arm_clone_panic(if clone_panics { 1 } else { 0 });
    track::arm_drop_panic(if drop_panics { 1 } else { 0 });
    let d0 = track::n_drops();
    let maybe_unwinding = |f: &mut dyn FnMut()| if unwinding { vrt::during_unwind(|| f()) } else { f() };
    let r = catch(|| {
        cap(|| maybe_unwinding(&mut || match (api, &mut keep) {
            ("make_mut", Keep::A(x)) => Arc::make_mut(x).0.set_val(9),
            ("make_unique", Keep::A(x)) => Arc::make_unique(x).0.set_val(9),
            ("OffsetArc::make_mut", Keep::O(x)) => x.make_mut().0.set_val(9),
            ("unwrap_or_clone", k) => {
                let Keep::A(x) = std::mem::replace(k, Keep::Gone) else { unreachable!() };
                let v = Arc::unwrap_or_clone(x);
                drop(v);
            }
            _ => unreachable!(),
        }))
    });
    let dropped_inside = track::drops_since(d0);
    track::arm_clone_panic(0);
    track::arm_drop_panic(0);
    HOOK.with(|h| h.set((0, false)));
    let panicked = r.is_err();
    // reference: owners of the old value other than the caller's handle, after the Clone ran
    let others = co.len() - (mask.count_ones() as usize) + add as usize;
    // unwrap_or_clone drops the clone itself before returning: that is the first destructor then
    let old_dies_inside = others == 0 && (!clone_panics || api == "unwrap_or_clone");
    let expect_panic = clone_panics || (drop_panics && (old_dies_inside || api == "unwrap_or_clone"));
    if panicked != expect_panic {
        g.fail("unexpected-outcome", &case, format!("panicked={} (expected {}; {} other owners of the old value remain after the Clone)", panicked, expect_panic, others));
    }
    if old_dies_inside != dropped_inside.iter().any(|d| d.1 == id) {
        g.fail("old-value-lifetime", &case, format!("old value destroyed inside the call: {} (expected {}; destructor log {:?})", !old_dies_inside, old_dies_inside, dropped_inside));
    }
    // ---- surviving handles: each refers to a live allocation, reads an intact value, and the
    //      count of that allocation equals the number of handles that refer to it
    let survivors: Vec<(usize, (usize, bool, u32, u32, usize))> = STASH.with(|s| s.borrow().iter().enumerate().filter_map(|(i, c)| c.as_ref().map(|c| (i, c.look()))).collect());
    let keep_block = match &keep {
        Keep::A(x) => Some(x.heap_ptr() as usize),
        Keep::O(x) => Some(x.with_arc(|a| a.heap_ptr() as usize)),
        Keep::Gone => None,
    };
    let mut keep_ok = true;
    if let Some(kb) = keep_block {
        if !is_live(kb) {
            keep_ok = false;
            g.fail("survivor-dangling", &case, format!("after the call the handle passed by &mut refers to block {:#x}, which has been released (the value's old block was {:#x})", kb, old_block));
        } else {
            let handles_there = 1 + survivors.iter().filter(|s| s.1 .0 == kb).count();
            let (intact, pid, val, count) = match &keep {
                Keep::A(x) => (x.0.peek().intact(), x.0.peek().id, x.0.peek().val, Arc::count(x)),
                Keep::O(x) => (x.0.peek().intact(), x.0.peek().id, x.0.peek().val, OffsetArc::strong_count(x)),
                Keep::Gone => unreachable!(),
            };
            if !intact || count != handles_there {
                g.fail("survivor-invalid", &case, format!("the handle passed by &mut reads intact={} with count {}; {} handle(s) refer to its allocation", intact, count, handles_there));
            }
            if clone_panics && (kb != old_block || pid != id || val != 5) {
                g.fail("survivor-changed", &case, format!("the Clone panicked, yet the handle now refers to block {:#x} id {} val {} (was {:#x}, id {}, val 5)", kb, pid, val, old_block, id));
            }
            if !clone_panics && (kb == old_block || pid == id) {
                g.fail("not-redirected", &case, "the value was shared when the call began and the Clone succeeded, yet the handle still refers to the old allocation".to_string());
            }
            if !panicked && val != 9 {
                g.fail("write-lost", &case, format!("the write through the returned reference is not visible through the handle (reads {})", val));
            }
        }
    }
    let old_handles = survivors.len() + (keep_block == Some(old_block) && keep_ok) as usize;
    for (i, (blk, intact, pid, val, count)) in &survivors {
        if *blk != old_block || !is_live(*blk) || !intact || *pid != id || *val != 5 || *count != old_handles {
            g.fail("co-owner-damaged", &case, format!("co-owner in slot {} refers to block {:#x} (live={}) intact={} id {} val {} count {}; expected the old value (block {:#x}, id {}, val 5) with count {}", i, blk, is_live(*blk), intact, pid, val, count, old_block, id, old_handles));
        }
    }
    // ---- release everything that survived; then nothing may be left and every value is gone once
    let keep_valid = keep_ok;
    cap(|| {
        match keep {
            Keep::Gone => {}
            k if keep_valid => drop(k),
            k => std::mem::forget(k),
        }
        for i in 0..3 {
            let c = STASH.with(|s| s.borrow_mut()[i].take());
            if let Some(c) = c {
                c.release();
            }
        }
    });
    let mut all = track::drops_since(0);
    all.sort();
    let before = all.len();
    all.dedup();
    if all.len() != before {
        g.fail("double-drop", &case, format!("a value was destroyed more than once: {:?}", track::drops_since(0)));
    }
    let created = track::next_id_peek() - 1;
    // Not the crate's doing: when the destructor of a function's *parameter* panics, rustc does not
    // destroy the value already placed in the return slot (rust-lang/rust#47949; std's
    // Arc::unwrap_or_clone behaves identically). In `unwrap_or_else(|this| T::clone(&this))` that is
    // the clone, when `this` turns out to be the last owner and the old value's destructor panics.
    let lost_by_rustc = api == "unwrap_or_clone" && !clone_panics && drop_panics && old_dies_inside;
    let destroyed_ids: Vec<u32> = all.iter().map(|d| d.1).collect();
    let missing: Vec<u32> = (1..=created).filter(|i| !destroyed_ids.contains(i)).collect();
    if !(missing.is_empty() || lost_by_rustc && missing == [id + 1]) {
        g.fail("value-lost", &case, format!("{} values were created, {} destroyed by the time every handle is gone: {:?}", created, all.len(), all));
    }
    let live = arena::live_blocks();
    if !live.is_empty() {
        g.fail("leak", &case, format!("every handle is gone and {} block(s) are still allocated: {:?}", live.len(), live));
    }
    for e in arena::errors_since(0) {
        g.fail("allocator-error", &case, format!("{:?}", e));
    }
    for p in track::perr_since(0) {
        g.fail("poison-access", &case, p);
    }
}

/// The destructor of the value a ThinArc solely owns panics when a `with_arc_mut` callback
/// replaces the Arc (assignment, mem::replace + drop, mem::swap + drop), optionally followed by a
/// panic of the callback itself.
pub fn replace_drop_panic(g: &mut Grid) {
    type Th = ThinArc<Tracked<12>, Tracked<6>>;
    for how in ["assign", "replace_then_drop", "swap_then_drop"] {
        for shared in [false, true] {
            for k in 0..=3usize {
                let case = format!("with_arc_mut callback replaces the Arc by {} ({}), destructor #{} of the old value panicking", how, if shared { "old value shared" } else { "old value solely owned" }, k);
                vrt::begin_execution();
                g.case(format!("wam-drop|{}|{}|{}", how, shared, k), || case.clone());
                let mut thin: Th = cap(|| ThinArc::from_header_and_iter(Tracked::new(1), [Tracked::<6>::new(10), Tracked::<6>::new(11)].into_iter()));
                let co = if shared { Some(cap(|| thin.clone())) } else { None };
                let fresh: Th = cap(|| ThinArc::from_header_and_iter(Tracked::new(2), [Tracked::<6>::new(20)].into_iter()));
                let fresh_block = fresh.heap_ptr() as usize;
                let mut fresh_fat = Some(cap(|| Arc::protected_from_thin(fresh)));
                track::arm_drop_panic(k);
                let r = catch(|| {
                    cap(|| {
                        thin.with_arc_mut(|a| {
                            let mut f = fresh_fat.take().unwrap();
                            match how {
                                "assign" => *a = f,
                                "replace_then_drop" => drop(std::mem::replace(a, f)),
                                _ => {
                                    std::mem::swap(a, &mut f);
                                    drop(f)
                                }
                            }
                        })
                    })
                });
                track::arm_drop_panic(0);
                let expect_panic = !shared && k != 0;
                if r.is_err() != expect_panic {
                    g.fail("unexpected-outcome", &case, format!("panicked={} expected {}", r.is_err(), expect_panic));
                }
                let tb = thin.heap_ptr() as usize;
                if tb != fresh_block || !is_live(tb) {
                    g.fail("survivor-dangling", &case, format!("the ThinArc refers to block {:#x} (live={}); the callback installed {:#x}", tb, is_live(tb), fresh_block));
                    std::mem::forget(thin);
                } else {
                    if ThinArc::strong_count(&thin) != 1 || thin.header.header.val() != 2 || thin.slice.len() != 1 {
                        g.fail("survivor-invalid", &case, format!("count {} header {} len {}", ThinArc::strong_count(&thin), thin.header.header.val(), thin.slice.len()));
                    }
                    cap(|| drop(thin));
                }
                cap(|| drop(co));
                let mut all = track::drops_since(0);
                all.sort();
                let before = all.len();
                all.dedup();
                if all.len() != before {
                    g.fail("double-drop", &case, format!("{:?}", track::drops_since(0)));
                }
                let created = track::next_id_peek() - 1;
                if all.len() != created as usize {
                    g.fail("value-lost", &case, format!("{} values created, {} destroyed: {:?}", created, all.len(), all));
                }
                if !arena::live_blocks().is_empty() {
                    g.fail("leak", &case, format!("{:?}", arena::live_blocks()));
                }
                for e in arena::errors_since(0) {
                    g.fail("allocator-error", &case, format!("{:?}", e));
                }
                for p in track::perr_since(0) {
                    g.fail("poison-access", &case, p);
                }
            }
        }
    }
}
