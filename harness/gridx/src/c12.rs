//! C12: an ArcUnion remembers which variant it holds and treats it as that type.
//! For every ordered pair of payload shapes: every history (depth-bounded) of union and plain-Arc
//! operations, compared step by step with a two-allocation reference model.
use crate::for_pairs;
use crate::grid::Grid;
use crate::shapes::*;
use std::alloc::Layout;
use std::mem::size_of;
use triomphe::{Arc, ArcUnion, ArcUnionBorrow};
use vrt::arena::{self, cap, EvKind};

#[derive(Clone, Copy, Debug, PartialEq)]
enum Op {
    NewA,
    NewB,
    FromFirst,
    FromSecond,
    /// only when both payload types are the same type: wrap the *first* allocation as `Second`
    /// (and the second as `First`), so that one allocation is held under both variants
    CrossSecond,
    CrossFirst,
    CloneU(usize),
    DropU(usize),
    PromoteU(usize), // borrow -> clone_arc -> plain Arc
    /// `us[i].clone_from(&us[j])` (the Clone trait's second entry point)
    CloneFromU(usize, usize),
    DropA,
    DropB,
}

#[derive(Clone, Default)]
struct Model {
    a_owners: usize,
    b_owners: usize,
    arcs_a: usize,
    arcs_b: usize,
    us: Vec<(bool, bool)>, // (variant is First, refers to allocation A)
    same_type: bool,
}
impl Model {
    fn handles(&self) -> usize {
        self.arcs_a + self.arcs_b + self.us.len()
    }
    fn enabled(&self, maxh: usize) -> Vec<Op> {
        let mut v = vec![];
        let room = self.handles() < maxh;
        if self.a_owners == 0 && room {
            v.push(Op::NewA);
        }
        if self.b_owners == 0 && room {
            v.push(Op::NewB);
        }
        if self.arcs_a > 0 && room {
            v.push(Op::FromFirst);
        }
        if self.arcs_b > 0 && room {
            v.push(Op::FromSecond);
        }
        if self.same_type && self.arcs_a > 0 && room {
            v.push(Op::CrossSecond);
        }
        if self.same_type && self.arcs_b > 0 && room {
            v.push(Op::CrossFirst);
        }
        for i in 0..self.us.len() {
            // unions of the same variant are bit-identical: only the first of each variant
            if self.us[..i].contains(&self.us[i]) {
                continue;
            }
            if room {
                v.push(Op::CloneU(i));
                v.push(Op::PromoteU(i));
            }
            v.push(Op::DropU(i));
            for j in 0..self.us.len() {
                if j != i && !self.us[..j].contains(&self.us[j]) {
                    v.push(Op::CloneFromU(i, j));
                }
            }
        }
        if self.arcs_a > 0 {
            v.push(Op::DropA);
        }
        if self.arcs_b > 0 {
            v.push(Op::DropB);
        }
        v
    }
    fn apply(&mut self, op: Op) {
        match op {
            Op::NewA => {
                self.a_owners = 1;
                self.arcs_a = 1
            }
            Op::NewB => {
                self.b_owners = 1;
                self.arcs_b = 1
            }
            Op::FromFirst => {
                self.a_owners += 1;
                self.us.push((true, true))
            }
            Op::FromSecond => {
                self.b_owners += 1;
                self.us.push((false, false))
            }
            Op::CrossSecond => {
                self.a_owners += 1;
                self.us.push((false, true))
            }
            Op::CrossFirst => {
                self.b_owners += 1;
                self.us.push((true, false))
            }
            Op::CloneU(i) => {
                let f = self.us[i];
                if f.1 {
                    self.a_owners += 1
                } else {
                    self.b_owners += 1
                }
                self.us.push(f)
            }
            Op::DropU(i) => {
                if self.us.remove(i).1 {
                    self.a_owners -= 1
                } else {
                    self.b_owners -= 1
                }
            }
            Op::CloneFromU(i, j) => {
                let (old, new) = (self.us[i], self.us[j]);
                if new.1 {
                    self.a_owners += 1
                } else {
                    self.b_owners += 1
                }
                if old.1 {
                    self.a_owners -= 1
                } else {
                    self.b_owners -= 1
                }
                self.us[i] = new;
            }
            Op::PromoteU(i) => {
                // the promoted plain Arc has the *variant's* type; with equal types it is stored by allocation
                if self.us[i].1 {
                    self.a_owners += 1;
                    self.arcs_a += 1
                } else {
                    self.b_owners += 1;
                    self.arcs_b += 1
                }
            }
            Op::DropA => {
                self.arcs_a -= 1;
                self.a_owners -= 1
            }
            Op::DropB => {
                self.arcs_b -= 1;
                self.b_owners -= 1
            }
        }
    }
}

fn inner<T>() -> (Layout, usize) {
    let (l, off) = Layout::new::<usize>().extend(Layout::new::<T>()).unwrap();
    (l.pad_to_align(), off)
}

struct Real<A, B> {
    arcs_a: Vec<Arc<A>>,
    arcs_b: Vec<Arc<B>>,
    us: Vec<ArcUnion<A, B>>,
    a_block: usize,
    b_block: usize,
}

fn run_path<A: DShape, B: DShape>(g: &mut Grid, path: &[Op]) {
    vrt::begin_execution();
    g.begin(&format!("ArcUnion<{},{}> {:?}", A::NAME, B::NAME, path));
    let same_type = std::any::TypeId::of::<A>() == std::any::TypeId::of::<B>();
    let mut r: Real<A, B> = Real { arcs_a: Vec::with_capacity(8), arcs_b: Vec::with_capacity(8), us: Vec::with_capacity(8), a_block: 0, b_block: 0 };
    let mut m = Model { same_type, ..Default::default() };
    let hist = |k: usize| format!("ArcUnion<{},{}> {:?}", A::NAME, B::NAME, &path[..=k]);
    for (k, &op) in path.iter().enumerate() {
        let (da0, db0) = (A::drops(), B::drops());
        let e0 = arena::n_events();
        let before = m.clone();
        cap(|| match op {
            Op::NewA => r.arcs_a.push(Arc::new(A::make(1))),
            Op::NewB => r.arcs_b.push(Arc::new(B::make(2))),
            Op::FromFirst => r.us.push(ArcUnion::from_first(r.arcs_a[0].clone())),
            Op::FromSecond => r.us.push(ArcUnion::from_second(r.arcs_b[0].clone())),
            Op::CrossSecond => {
                let a: &Arc<A> = &r.arcs_a[0];
                let b: &Arc<B> = (a as &dyn std::any::Any).downcast_ref::<Arc<B>>().expect("same type");
                r.us.push(ArcUnion::from_second(b.clone()))
            }
            Op::CrossFirst => {
                let b: &Arc<B> = &r.arcs_b[0];
                let a: &Arc<A> = (b as &dyn std::any::Any).downcast_ref::<Arc<A>>().expect("same type");
                r.us.push(ArcUnion::from_first(a.clone()))
            }
            Op::CloneU(i) => {
                let c = r.us[i].clone();
                r.us.push(c)
            }
            Op::DropU(i) => drop(r.us.remove(i)),
            Op::CloneFromU(i, j) => {
                let src: &ArcUnion<A, B> = unsafe { &*(&r.us[j] as *const ArcUnion<A, B>) };
                r.us[i].clone_from(src)
            }
            Op::PromoteU(i) => {
                let on_a = before.us[i].1;
                match r.us[i].borrow() {
                    ArcUnionBorrow::First(b) => {
                        let arc = b.clone_arc();
                        if on_a {
                            r.arcs_a.push(arc)
                        } else {
                            // equal types: the allocation is the "B" one although the variant is First
                            // A and B are the same type here (checked through TypeId by the model)
                            let x: Arc<B> = unsafe { std::mem::transmute_copy(&arc) };
                            std::mem::forget(arc);
                            r.arcs_b.push(x)
                        }
                    }
                    ArcUnionBorrow::Second(b) => {
                        let arc = b.clone_arc();
                        if !on_a {
                            r.arcs_b.push(arc)
                        } else {
                            let x: Arc<A> = unsafe { std::mem::transmute_copy(&arc) };
                            std::mem::forget(arc);
                            r.arcs_a.push(x)
                        }
                    }
                }
            }
            Op::DropA => drop(r.arcs_a.pop()),
            Op::DropB => drop(r.arcs_b.pop()),
        });
        m.apply(op);
        STEPS.with(|s| s.set(s.get() + 1));
        STATES.with(|s| {
            s.borrow_mut().insert(format!("{}|{}|{}|{}|{}|{}|{:?}", A::NAME, B::NAME, m.a_owners, m.b_owners, m.arcs_a, m.arcs_b, m.us));
        });
        let evs = arena::events_since(e0);
        if op == Op::NewA {
            r.a_block = evs.iter().find(|e| e.kind == EvKind::Alloc).map(|e| e.addr).unwrap_or(0);
        }
        if op == Op::NewB {
            r.b_block = evs.iter().find(|e| e.kind == EvKind::Alloc).map(|e| e.addr).unwrap_or(0);
        }
        // --- what was destroyed / released in this step
        let a_died = before.a_owners > 0 && m.a_owners == 0;
        let b_died = before.b_owners > 0 && m.b_owners == 0;
        let (da, db) = (A::drops() - da0, B::drops() - db0);
        let (wa, wb) = if same_type { ((a_died as usize) + (b_died as usize), (a_died as usize) + (b_died as usize)) } else { (a_died as usize, b_died as usize) };
        if da != wa || db != wb {
            g.fail("wrong-destructor", &hist(k), format!("destructor runs: {} of first type {}, {} of second type {}; expected {} and {}", da, A::NAME, db, B::NAME, wa, wb));
            return;
        }
        let frees: Vec<_> = evs.iter().filter(|e| e.kind == EvKind::Dealloc).map(|e| (e.addr, e.size, e.align)).collect();
        let mut want = vec![];
        if a_died {
            let (l, _) = inner::<A>();
            want.push((r.a_block, l.size(), l.align()));
        }
        if b_died {
            let (l, _) = inner::<B>();
            want.push((r.b_block, l.size(), l.align()));
        }
        if frees != want {
            g.fail("wrong-release", &hist(k), format!("blocks returned in this step {:?}, expected {:?} (block start, size, align of the variant's own type)", frees, want));
            return;
        }
        for e in arena::errors_since(0) {
            g.fail("allocator-error", &hist(k), format!("{:?}", e));
            return;
        }
        // --- every union reports its variant, the right allocation and the right count
        for (i, u) in r.us.iter().enumerate() {
            let (first, on_a) = m.us[i];
            let (blk, off, own) = if on_a { (r.a_block, inner::<A>().1, m.a_owners) } else { (r.b_block, inner::<B>().1, m.b_owners) };
            let accessors_ok = u.is_first() == first && u.is_second() == !first && u.as_first().is_some() == first && u.as_second().is_some() == !first && matches!(u.borrow(), ArcUnionBorrow::First(_)) == first;
            if !accessors_ok {
                g.fail("variant-misreported", &hist(k), format!("union #{} built {} reports is_first={} is_second={} as_first={} as_second={}", i, if first { "from_first" } else { "from_second" }, u.is_first(), u.is_second(), u.as_first().is_some(), u.as_second().is_some()));
                return;
            }
            let addr = match u.borrow() {
                ArcUnionBorrow::First(b) => {
                    if !b.get().ok(if on_a { 1 } else { 2 }) {
                        g.fail("payload-damaged", &hist(k), format!("union #{} first payload not intact", i));
                    }
                    b.get() as *const A as usize
                }
                ArcUnionBorrow::Second(b) => {
                    if !b.get().ok(if on_a { 1 } else { 2 }) {
                        g.fail("payload-damaged", &hist(k), format!("union #{} second payload not intact", i));
                    }
                    b.get() as *const B as usize
                }
            };
            let via_as = match (u.as_first(), u.as_second()) {
                (Some(b), None) => b.get() as *const A as usize,
                (None, Some(b)) => b.get() as *const B as usize,
                _ => 0,
            };
            if via_as != addr {
                g.fail("payload-address-as-variant", &hist(k), format!("union #{}: as_first/as_second expose {:#x}, borrow() exposes {:#x}", i, via_as, addr));
                return;
            }
            if addr != blk + off || addr & 1 != 0 {
                g.fail("payload-address", &hist(k), format!("union #{} exposes payload at {:#x}, the source Arc's value lives at {:#x}", i, addr, blk + off));
                return;
            }
            let sc = ArcUnion::strong_count(u);
            if sc != own || ArcUnionBorrow::strong_count(&u.borrow()) != own {
                g.fail("count", &hist(k), format!("union #{} strong_count {} but {} owners of that allocation", i, sc, own));
                return;
            }
            for (j, v) in r.us.iter().enumerate().skip(i + 1) {
                let same_variant = m.us[j].0 == first;
                let same = m.us[j] == (first, on_a);
                if ArcUnion::ptr_eq(u, v) != same {
                    g.fail(if same_variant { "ptr-eq" } else { "ptr-eq-across-variants" }, &hist(k), format!("ptr_eq(#{}, #{}) = {} but (same variant, same allocation) = ({}, {})", i, j, !same, same_variant, m.us[j].1 == on_a));
                }
                if (u != v) == (u == v) {
                    g.fail("eq-ne-incoherent", &hist(k), format!("union #{} vs #{}: == is {} and != is {}", i, j, u == v, u != v));
                }
                if !same_variant && u == v {
                    g.fail("eq-across-variants", &hist(k), format!("union #{} == union #{} although they hold different variants (allocations {} / {})", i, j, if on_a { "A" } else { "B" }, if m.us[j].1 { "A" } else { "B" }));
                }
                if same && u != v {
                    g.fail("eq-same-union", &hist(k), format!("union #{} != union #{} although both hold the same variant of the same allocation", i, j));
                }
            }
        }
        for a in &r.arcs_a {
            if Arc::count(a) != m.a_owners || !a.ok(1) || a.heap_ptr() as usize != r.a_block {
                g.fail("plain-arc", &hist(k), format!("plain Arc<{}> count {} (model {})", A::NAME, Arc::count(a), m.a_owners));
                return;
            }
        }
        for b in &r.arcs_b {
            if Arc::count(b) != m.b_owners || !b.ok(2) || b.heap_ptr() as usize != r.b_block {
                g.fail("plain-arc", &hist(k), format!("plain Arc<{}> count {} (model {})", B::NAME, Arc::count(b), m.b_owners));
                return;
            }
        }
    }
    // closing: release everything, unions first or last depending on parity
    let (da0, db0) = (A::drops(), B::drops());
    cap(|| {
        if path.len() % 2 == 0 {
            r.us.clear();
            r.arcs_a.clear();
            r.arcs_b.clear();
        } else {
            r.arcs_b.clear();
            r.arcs_a.clear();
            while let Some(u) = r.us.pop() {
                drop(u)
            }
        }
    });
    let (wa, wb) = ((m.a_owners > 0) as usize, (m.b_owners > 0) as usize);
    let (wa, wb) = if same_type { (wa + wb, wa + wb) } else { (wa, wb) };
    if A::drops() - da0 != wa || B::drops() - db0 != wb || !arena::live_blocks().is_empty() || arena::n_errors() != 0 {
        g.fail("closing", &format!("ArcUnion<{},{}> {:?}", A::NAME, B::NAME, path), format!("after releasing everything: destructor runs ({}, {}) expected ({}, {}), live blocks {:?}, allocator errors {:?}", A::drops() - da0, B::drops() - db0, wa, wb, arena::live_blocks(), arena::errors_since(0)));
    }
}

thread_local! {
    /// distinct (pair, model state) reached and operations executed, for the model_checking evidence
    static STATES: std::cell::RefCell<std::collections::HashSet<String>> = std::cell::RefCell::new(Default::default());
    static STEPS: std::cell::Cell<u64> = const { std::cell::Cell::new(0) };
}

pub fn pair<A: DShape, B: DShape>(g: &mut Grid, depth: usize, maxh: usize) {
    if size_of::<ArcUnion<A, B>>() != size_of::<usize>() || size_of::<Option<ArcUnion<A, B>>>() != size_of::<usize>() {
        g.fail("union-size", &format!("ArcUnion<{},{}>", A::NAME, B::NAME), format!("size {} / Option {}", size_of::<ArcUnion<A, B>>(), size_of::<Option<ArcUnion<A, B>>>()));
    }
    fn rec<A: DShape, B: DShape>(g: &mut Grid, m: &Model, path: &mut Vec<Op>, depth: usize, maxh: usize) {
        let ops = if path.len() < depth { m.enabled(maxh) } else { vec![] };
        if ops.is_empty() {
            let has_union = path.iter().any(|o| matches!(o, Op::FromFirst | Op::FromSecond | Op::CrossFirst | Op::CrossSecond));
            g.case(format!("{}|{}|{}", A::NAME, B::NAME, if has_union { format!("{:?}", path) } else { "no-union".into() }), || format!("ArcUnion<{},{}> {:?}", A::NAME, B::NAME, path));
            if has_union {
                run_path::<A, B>(g, path);
            }
            return;
        }
        for op in ops {
            let mut m2 = m.clone();
            m2.apply(op);
            path.push(op);
            rec::<A, B>(g, &m2, path, depth, maxh);
            path.pop();
        }
    }
    let same_type = std::any::TypeId::of::<A>() == std::any::TypeId::of::<B>();
    rec::<A, B>(g, &Model { same_type, ..Default::default() }, &mut vec![], depth, maxh);
}

pub fn run(tier: &str) -> Vec<Grid> {
    let mut g = Grid::new("c12.union", "ordered pair of payload shapes (incl. equal, byte-aligned, zero-sized, over-aligned) x every operation history up to the depth bound over {new, from_first, from_second, union clone/drop, borrow->clone_arc, plain Arc drop} with <= 4 live handles; distinct = (pair, history) that builds at least one union");
    let gr = &mut g;
    if tier == "thorough" {
        for_pairs!(pair, (gr, 7, 4); [D0a1, D1a1, D3a1, D2a2, D4a4, D8a8, D24a8, D16a16, D64a64, D0a8, D0a64]);
    } else {
        for_pairs!(pair, (gr, 6, 4); [D0a1, D1a1, D3a1, D8a8, D16a16, D64a64, D0a8]);
    }
    let mut ex = vrt::json::J::obj();
    ex.set("states", vrt::json::J::i(STATES.with(|s| s.borrow().len())));
    ex.set("transitions", vrt::json::J::i(STEPS.with(|s| s.get())));
    g.extra = ex;
    vec![g]
}
