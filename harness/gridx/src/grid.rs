//! Result accumulator shared by the grid sub-engines.
use std::collections::BTreeSet;
use vrt::json::J;

pub struct Grid {
    pub name: &'static str,
    pub evaluations: u64,
    pub distinct: BTreeSet<String>,
    pub samples: Vec<String>,
    pub violations: Vec<(String, String, String)>, // (code, case, message)
    pub notes: Vec<String>,
    pub rule: String,
    pub exhaustive: bool,
    pub extra: J,
}
impl Grid {
    pub fn new(name: &'static str, rule: &str) -> Grid {
        Grid { name, evaluations: 0, distinct: BTreeSet::new(), samples: vec![], violations: vec![], notes: vec![], rule: rule.to_string(), exhaustive: true, extra: J::obj() }
    }
    /// count one evaluated case; `class` names its equivalence class for the distinct count
    /// announce the case about to be executed (crash attribution)
    pub fn begin(&self, case: &str) {
        vrt::crash::set_inflight(&format!("{} :: {}", self.name, case));
    }
    pub fn case(&mut self, class: String, sample: impl FnOnce() -> String) {
        vrt::crash::set_inflight(&format!("{} :: {}", self.name, class));
        self.evaluations += 1;
        let fresh = self.distinct.insert(class);
        if fresh && (self.samples.len() < 8) && (self.distinct.len() % 37 == 1 || self.samples.len() < 2) {
            self.samples.push(sample());
        }
    }
    pub fn fail(&mut self, code: &str, case: &str, msg: String) {
        // keep at most 3 examples per oracle code, so that a flood of one (possibly known)
        // finding can never crowd out a different violation
        if self.violations.iter().filter(|v| v.0 == code).count() < 3 && self.violations.len() < 400 {
            self.violations.push((code.to_string(), case.to_string(), msg));
        }
    }
    pub fn to_json(&self) -> J {
        let mut o = J::obj();
        o.set("engine", J::s("gridx"));
        o.set("part", J::s(self.name));
        o.set("evaluations", J::i(self.evaluations));
        o.set("distinct_nontrivial", J::i(self.distinct.len()));
        o.set("rule", J::s(self.rule.clone()));
        o.set("samples", J::arr(self.samples.iter().cloned()));
        o.set("exhaustive", J::B(self.exhaustive));
        o.set("notes", J::arr(self.notes.iter().cloned()));
        o.set("extra", self.extra.clone());
        o.set(
            "violations",
            J::A(self
                .violations
                .iter()
                .map(|(c, k, m)| {
                    let mut j = J::obj();
                    j.set("code", J::s(c.clone()));
                    j.set("case", J::s(k.clone()));
                    j.set("op", J::s(k.clone()));
                    j.set("msg", J::s(m.clone()));
                    j.set("part", J::s(self.name));
                    j
                })
                .collect()),
        );
        o
    }
}
