//! C15: uninitialised construction never destroys or exposes what was not written.
use crate::elems::*;
use crate::grid::Grid;
use std::mem::MaybeUninit;
use triomphe::{Arc, HeaderSlice, OffsetArc, UniqueArc};
use vrt::arena::{self, cap};
use vrt::track::{self, Tracked};
use vrt::{catch, rmwlog};

type T6 = Tracked<6>;

fn end_checks(g: &mut Grid, case: &str) {
    if !arena::live_blocks().is_empty() {
        g.fail("leak", case, format!("blocks still allocated: {:?}", arena::live_blocks()));
    }
    for e in arena::errors_since(0) {
        g.fail("allocator-error", case, format!("{:?}", e));
    }
    for p in track::perr_since(0) {
        g.fail("poison-access", case, p);
    }
}

/// slice-shaped uninit constructors: every subset of slots written, then drop or assume_init
fn slices(g: &mut Grid, maxlen: usize) {
    for ctor in ["Arc::new_uninit_slice", "UniqueArc::new_uninit_slice", "from_header_and_uninit_slice"] {
        for n in 0..=maxlen {
            for mask in 0u32..(1 << n) {
                let full = mask == (1u32 << n) - 1;
                let paths: &[&str] = if full { &["drop_uninit", "assume_init", "assume_init_shared"] } else { &["drop_uninit"] };
                for path in paths {
                    let case = format!("{} len={} written_mask={:#b} then {}", ctor, n, mask, path);
                    vrt::begin_execution();
                    enum U {
                        A(Arc<[MaybeUninit<T6>]>),
                        X(UniqueArc<[MaybeUninit<T6>]>),
                        H(UniqueArc<HeaderSlice<HT, [MaybeUninit<T6>]>>),
                    }
                    let mut hid = 0;
                    let mut u = cap(|| match ctor {
                        "Arc::new_uninit_slice" => U::A(Arc::new_uninit_slice(n)),
                        "UniqueArc::new_uninit_slice" => U::X(UniqueArc::new_uninit_slice(n)),
                        _ => {
                            let h = HT::make();
                            hid = h.look().1;
                            U::H(UniqueArc::from_header_and_uninit_slice(h, n))
                        }
                    });
                    g.case(format!("slice|{}|{}|{}|{}", ctor, n, mask.count_ones(), path), || case.clone());
                    let block = arena::live_blocks();
                    if block.len() != 1 {
                        g.fail("blocks-after-ctor", &case, format!("{:?}", block));
                        continue;
                    }
                    let mut ids = vec![];
                    cap(|| {
                        let sl: &mut [MaybeUninit<T6>] = match &mut u {
                            U::A(a) => Arc::get_mut(a).expect("fresh uninit Arc must be unique"),
                            U::X(x) => &mut **x,
                            U::H(x) => &mut x.slice,
                        };
                        if sl.len() != n {
                            panic!("length {} != {}", sl.len(), n);
                        }
                        for i in 0..n {
                            if mask & (1 << i) != 0 {
                                let v = T6::new(i as u32);
                                let id = v.id();
                                sl[i].write(v);
                                arena::suspend(|| ids.push(id));
                            }
                        }
                    });
                    let d0 = track::n_drops();
                    match *path {
                        "drop_uninit" => {
                            cap(|| drop(u));
                            let d = track::drops_since(d0);
                            let want: Vec<(u8, u32)> = if hid != 0 { vec![(12, hid)] } else { vec![] };
                            if d != want {
                                g.fail("uninit-drop", &case, format!("dropping before assume_init must destroy the header once and no element; destructor log {:?}, expected {:?}", d, want));
                            }
                        }
                        _ => {
                            let e0 = arena::n_events();
                            let r0 = rmwlog::len();
                            let addr0 = block[0].0;
                            enum I {
                                A(Arc<[T6]>),
                                H(Arc<HeaderSlice<HT, [T6]>>),
                            }
                            let init = cap(|| unsafe {
                                match u {
                                    U::A(a) => I::A(a.assume_init()),
                                    U::X(x) => I::A(UniqueArc::assume_init_slice(x).shareable()),
                                    U::H(x) => I::H(x.assume_init_slice_with_header().shareable()),
                                }
                            });
                            if arena::n_events() != e0 {
                                g.fail("assume-init-allocates", &case, format!("allocator traffic across assume_init: {:?}", arena::events_since(e0)));
                            }
                            if rmwlog::since(r0).iter().any(|a| a.is_rmw()) {
                                g.fail("assume-init-count", &case, "assume_init wrote to the reference count".into());
                            }
                            let (hp, cnt, elems): (usize, usize, &[T6]) = match &init {
                                I::A(a) => (a.heap_ptr() as usize, Arc::count(a), a),
                                I::H(a) => (a.heap_ptr() as usize, Arc::count(a), &a.slice),
                            };
                            if hp != addr0 || cnt != 1 {
                                g.fail("assume-init-moved", &case, format!("after assume_init block {:#x} count {}, before {:#x} count 1", hp, cnt, addr0));
                            }
                            for (i, e) in elems.iter().enumerate() {
                                let p = e.peek();
                                if !p.intact() || p.id != ids[i] {
                                    g.fail("assume-init-contents", &case, format!("element {} reads {} id {}", i, p.describe(), p.id));
                                }
                            }
                            if !track::drops_since(d0).is_empty() {
                                g.fail("assume-init-drops", &case, format!("{:?}", track::drops_since(d0)));
                            }
                            cap(|| {
                                if *path == "assume_init_shared" {
                                    match &init {
                                        I::A(a) => {
                                            let b = a.clone();
                                            let e = Arc::<HeaderSlice<(), [T6]>>::from(b);
                                            drop(e)
                                        }
                                        I::H(a) => drop(a.clone()),
                                    }
                                }
                                drop(init)
                            });
                            let mut d: Vec<(u8, u32)> = track::drops_since(d0);
                            d.sort();
                            let mut want: Vec<(u8, u32)> = ids.iter().map(|i| (6u8, *i)).collect();
                            if hid != 0 {
                                want.push((12, hid));
                            }
                            want.sort();
                            if d != want {
                                g.fail("init-drop-accounting", &case, format!("after assume_init every element and the header are destroyed exactly once with the allocation: expected {:?}, log {:?}", want, d));
                            }
                        }
                    }
                    end_checks(g, &case);
                }
            }
        }
    }
}

fn sized(g: &mut Grid) {
    for ctor in ["Arc::new_uninit", "UniqueArc::new_uninit"] {
        for written in [false, true] {
            let paths: &[&str] = if written { &["drop_uninit", "assume_init"] } else { &["drop_uninit"] };
            for path in paths {
                let case = format!("{} written={} then {}", ctor, written, path);
                vrt::begin_execution();
                g.case(format!("sized|{}|{}|{}", ctor, written, path), || case.clone());
                enum U {
                    A(Arc<MaybeUninit<T6>>),
                    X(UniqueArc<MaybeUninit<T6>>),
                }
                let mut u = cap(|| if ctor == "Arc::new_uninit" { U::A(Arc::new_uninit()) } else { U::X(UniqueArc::new_uninit()) });
                let addr0 = arena::live_blocks().first().map(|b| b.0).unwrap_or(0);
                let mut id = 0;
                if written {
                    cap(|| {
                        let v = T6::new(4);
                        id = v.id();
                        match &mut u {
                            U::A(a) => {
                                Arc::get_mut(a).unwrap().write(v);
                            }
                            U::X(x) => {
                                x.write(v);
                            }
                        }
                    });
                }
                let d0 = track::n_drops();
                if *path == "drop_uninit" {
                    cap(|| drop(u));
                    if !track::drops_since(d0).is_empty() {
                        g.fail("uninit-drop", &case, format!("dropping a MaybeUninit handle ran destructors: {:?}", track::drops_since(d0)));
                    }
                } else {
                    let (e0, r0) = (arena::n_events(), rmwlog::len());
                    let a: Arc<T6> = cap(|| unsafe {
                        match u {
                            U::A(a) => a.assume_init(),
                            U::X(x) => UniqueArc::assume_init(x).shareable(),
                        }
                    });
                    if arena::n_events() != e0 || rmwlog::since(r0).iter().any(|x| x.is_rmw()) || a.heap_ptr() as usize != addr0 || Arc::count(&a) != 1 || a.peek().id != id || !a.peek().intact() {
                        g.fail("assume-init-moved", &case, "assume_init changed allocation, contents or count".into());
                    }
                    cap(|| {
                        let o: OffsetArc<T6> = Arc::into_raw_offset(a.clone());
                        drop(a);
                        drop(o)
                    });
                    if track::drops_since(d0) != vec![(6u8, id)] {
                        g.fail("init-drop-accounting", &case, format!("{:?}", track::drops_since(d0)));
                    }
                }
                end_checks(g, &case);
            }
        }
    }
}

/// plain payloads of sizes that are not multiples of the count word: the uninit constructors must
/// request, and later return, the same block as the initialised forms
fn sized_plain<T: Copy + PartialEq + std::fmt::Debug + 'static>(g: &mut Grid, name: &str, v: T) {
    for ctor in ["Arc::new_uninit", "UniqueArc::new_uninit"] {
        for path in ["drop_uninit", "assume_init"] {
            let case = format!("{}::<{}> written then {}", ctor, name, path);
            vrt::begin_execution();
            g.case(format!("plain|{}|{}|{}", ctor, name, path), || case.clone());
            let want = std::alloc::Layout::new::<usize>().extend(std::alloc::Layout::new::<T>()).unwrap().0.pad_to_align();
            cap(|| {
                if ctor == "Arc::new_uninit" {
                    let mut a = Arc::<MaybeUninit<T>>::new_uninit();
                    Arc::get_mut(&mut a).unwrap().write(v);
                    if path == "assume_init" {
                        let a = unsafe { a.assume_init() };
                        assert!(*a == v);
                        drop(a)
                    } else {
                        drop(a)
                    }
                } else {
                    let mut u = UniqueArc::<T>::new_uninit();
                    u.write(v);
                    if path == "assume_init" {
                        let a = unsafe { UniqueArc::assume_init(u) }.shareable();
                        assert!(*a == v);
                        drop(a)
                    } else {
                        drop(u)
                    }
                }
            });
            let ev = arena::events_since(0);
            if let Some(a) = ev.iter().find(|e| e.kind == arena::EvKind::Alloc) {
                if a.size < want.size() || a.align < want.align() {
                    g.fail("uninit-block-too-small", &case, format!("block requested with (size {}, align {}), count + value need ({}, {})", a.size, a.align, want.size(), want.align()));
                }
            }
            end_checks(g, &case);
        }
    }
}

/// deprecated Arc::write / as_mut_slice in every sharing state
#[allow(deprecated)]
fn deprecated_writes(g: &mut Grid) {
    for api in ["Arc<MaybeUninit<T>>::write", "Arc<[MaybeUninit<T>]>::as_mut_slice"] {
        for co in ["sole", "arc_clone", "two_clones", "raw", "offset_or_erased", "borrow_clone_arc"] {
            let case = format!("{} sharing={}", api, co);
            vrt::begin_execution();
            g.case(format!("deprecated|{}|{}", api, co), || case.clone());
            let shared = co != "sole";
            if api.ends_with("write") {
                let mut a: Arc<MaybeUninit<u64>> = cap(Arc::new_uninit);
                cap(|| {
                    Arc::get_mut(&mut a).unwrap().write(0x1111);
                });
                let mut keep: Vec<Arc<MaybeUninit<u64>>> = vec![];
                let mut raw: Option<*const MaybeUninit<u64>> = None;
                let mut off: Option<OffsetArc<MaybeUninit<u64>>> = None;
                cap(|| match co {
                    "arc_clone" => arena::suspend(|| keep.push(a.clone())),
                    "two_clones" => arena::suspend(|| {
                        keep.push(a.clone());
                        keep.push(a.clone())
                    }),
                    "raw" => raw = Some(Arc::into_raw(a.clone())),
                    "offset_or_erased" => off = Some(Arc::into_raw_offset(a.clone())),
                    "borrow_clone_arc" => arena::suspend(|| keep.push(a.borrow_arc().clone_arc())),
                    _ => {}
                });
                let before = Arc::count(&a);
                let r = catch(|| {
                    cap(|| {
                        a.write(0x2222);
                    })
                });
                let now = unsafe { a.assume_init_read() };
                verdict(g, &case, shared, r, before, Arc::count(&a), now == 0x2222, now == 0x1111);
                for k in &keep {
                    if unsafe { k.assume_init_read() } != if shared { 0x1111 } else { 0x2222 } {
                        g.fail("other-view-changed", &case, "another handle's view changed".into());
                    }
                }
                cap(|| {
                    drop(keep);
                    if let Some(p) = raw {
                        drop(unsafe { Arc::from_raw(p) });
                    }
                    drop(off);
                    drop(a)
                });
            } else {
                // length 0 is a boundary of its own: there is no slot to write, the gate must still hold
                for empty_len in [0usize] {
                    let mut e: Arc<[MaybeUninit<u64>]> = cap(|| Arc::new_uninit_slice(empty_len));
                    let keep_e = if shared { Some(cap(|| e.clone())) } else { None };
                    let r = catch(|| {
                        let _ = e.as_mut_slice();
                    });
                    if r.is_ok() == shared {
                        g.fail(if shared { "shared-write-allowed" } else { "sole-write-refused" }, &format!("{} (length 0)", case), format!("as_mut_slice on an empty slice returned={} with shared={}", r.is_ok(), shared));
                    }
                    cap(|| drop((e, keep_e)));
                }
                let mut a: Arc<[MaybeUninit<u64>]> = cap(|| Arc::new_uninit_slice(3));
                cap(|| {
                    for s in Arc::get_mut(&mut a).unwrap().iter_mut() {
                        s.write(0x1111);
                    }
                });
                let mut keep: Vec<Arc<[MaybeUninit<u64>]>> = vec![];
                let mut raw: Option<*const [MaybeUninit<u64>]> = None;
                let mut er: Option<Arc<HeaderSlice<(), [MaybeUninit<u64>]>>> = None;
                cap(|| match co {
                    "arc_clone" | "borrow_clone_arc" => arena::suspend(|| keep.push(a.clone())),
                    "two_clones" => arena::suspend(|| {
                        keep.push(a.clone());
                        keep.push(a.clone())
                    }),
                    "raw" => raw = Some(Arc::into_raw(a.clone())),
                    "offset_or_erased" => er = Some(a.clone().into()),
                    _ => {}
                });
                let before = Arc::count(&a);
                let r = catch(|| {
                    cap(|| {
                        a.as_mut_slice()[1].write(0x2222);
                    })
                });
                let now = unsafe { a[1].assume_init_read() };
                verdict(g, &case, shared, r, before, Arc::count(&a), now == 0x2222, now == 0x1111);
                cap(|| {
                    drop(keep);
                    if let Some(p) = raw {
                        drop(unsafe { Arc::from_raw_slice(p) });
                    }
                    drop(er);
                    drop(a)
                });
            }
            end_checks(g, &case);
        }
    }
}

#[allow(clippy::too_many_arguments)]
fn verdict(g: &mut Grid, case: &str, shared: bool, r: Result<(), String>, before: usize, after: usize, written: bool, unchanged: bool) {
    match (shared, r) {
        (false, Ok(())) => {
            if !written {
                g.fail("sole-write-lost", case, "sole owner: the write is not visible".into());
            }
        }
        (false, Err(m)) => g.fail("sole-write-refused", case, format!("sole owner: write panicked: {}", m)),
        (true, Ok(())) => g.fail("shared-write-allowed", case, "write through a shared handle did not panic".into()),
        (true, Err(_)) => {
            if !unchanged {
                g.fail("shared-write-mutated", case, "the shared value was modified although the call panicked".into());
            }
        }
    }
    if before != after {
        g.fail("count-changed", case, format!("count {} -> {}", before, after));
    }
}

// ---------------------------------------------------------------- zero-sized headers and elements with destructors
thread_local! {
    static ZH_DROPS: std::cell::Cell<usize> = const { std::cell::Cell::new(0) };
    static ZE_DROPS: std::cell::Cell<usize> = const { std::cell::Cell::new(0) };
}
/// a zero-sized header that has a destructor (a guard, a registration token)
struct ZH;
impl Drop for ZH {
    fn drop(&mut self) {
        ZH_DROPS.with(|c| c.set(c.get() + 1));
    }
}
/// a zero-sized element that has a destructor
struct ZE;
impl Drop for ZE {
    fn drop(&mut self) {
        ZE_DROPS.with(|c| c.set(c.get() + 1));
    }
}
fn zst_case<E: 'static>(g: &mut Grid, ename: &str, mk: fn() -> E, e_drops: fn() -> usize, n: usize, path: &str) {
    // element types without a destructor report 0 throughout
    let counted = std::mem::needs_drop::<E>();
    let want_e = if counted { n } else { 0 };
    let case = format!("from_header_and_uninit_slice(zero-sized header with a destructor, {} x {}) then {}", n, ename, path);
    vrt::begin_execution();
    g.case(format!("zst|{}|{}|{}", ename, n, path), || case.clone());
    ZH_DROPS.with(|c| c.set(0));
    let e0 = e_drops();
    let mut u = cap(|| UniqueArc::<HeaderSlice<ZH, [MaybeUninit<E>]>>::from_header_and_uninit_slice(ZH, n));
    if ZH_DROPS.with(|c| c.get()) != 0 {
        g.fail("header-destroyed-by-ctor", &case, "the header was destroyed although the handle that owns it is alive".into());
    }
    if u.slice.len() != n {
        g.fail("uninit-length", &case, format!("slice length {}", u.slice.len()));
    }
    match path {
        "drop_uninit" => {
            cap(|| drop(u));
            if ZH_DROPS.with(|c| c.get()) != 1 || e_drops() != e0 {
                g.fail("uninit-drop", &case, format!("dropping before assume_init must destroy the header once and no element: header destructor ran {} times, element destructors {}", ZH_DROPS.with(|c| c.get()), e_drops() - e0));
            }
        }
        _ => {
            cap(|| {
                for s in u.slice.iter_mut() {
                    s.write(mk());
                }
            });
            let a = cap(|| unsafe { u.assume_init_slice_with_header() }.shareable());
            let b = cap(|| a.clone());
            if ZH_DROPS.with(|c| c.get()) != 0 || e_drops() != e0 || Arc::count(&a) != 2 {
                g.fail("assume-init-drops", &case, format!("after assume_init and a clone: header destructor ran {} times, element destructors {}, count {}", ZH_DROPS.with(|c| c.get()), e_drops() - e0, Arc::count(&a)));
            }
            cap(|| drop(a));
            if ZH_DROPS.with(|c| c.get()) != 0 {
                g.fail("destroyed-while-owned", &case, "the header was destroyed while a co-owner is alive".into());
            }
            cap(|| drop(b));
            if ZH_DROPS.with(|c| c.get()) != 1 || e_drops() - e0 != want_e {
                g.fail("init-drop-accounting", &case, format!("after the last release: header destructor ran {} times (expected 1), element destructors {} (expected {})", ZH_DROPS.with(|c| c.get()), e_drops() - e0, want_e));
            }
        }
    }
    end_checks(g, &case);
}
fn zst_shapes(g: &mut Grid) {
    for n in 0..=3usize {
        for path in ["drop_uninit", "assume_init"] {
            zst_case::<ZE>(g, "zero-sized element with a destructor", || ZE, || ZE_DROPS.with(|c| c.get()), n, path);
            zst_case::<()>(g, "()", || (), || 0, n, path);
            zst_case::<u32>(g, "u32", || 7, || 0, n, path);
        }
    }
}

pub fn run(tier: &str) -> Vec<Grid> {
    let n = if tier == "thorough" { 6 } else { 4 };
    let mut g = Grid::new("c15.uninit", "uninit constructor x length 0..=N x every subset of slots written x {drop before assume_init, assume_init (full subset), assume_init then share/convert}; sized forms x written/unwritten; deprecated write/as_mut_slice x sharing state");
    slices(&mut g, n);
    sized(&mut g);
    sized_plain(&mut g, "u8", 7u8);
    sized_plain(&mut g, "u16", 7u16);
    sized_plain(&mut g, "[u8;3]", [1u8, 2, 3]);
    sized_plain(&mut g, "u32", 7u32);
    sized_plain(&mut g, "[u8;9]", [9u8; 9]);
    sized_plain(&mut g, "[u32;3]", [3u32; 3]);
    sized_plain(&mut g, "u128", 7u128);
    sized_plain(&mut g, "()", ());
    deprecated_writes(&mut g);
    zst_shapes(&mut g);
    vec![g]
}
