//! Generic level-synchronous BFS over handle histories (DESIGN §2.3).
use std::collections::{BTreeMap, HashSet};
use std::sync::atomic::{AtomicBool, AtomicUsize, Ordering};
use std::time::Instant;
use vrt::json::J;

pub const LIFETIME: u32 = 1 << 0; // C01
pub const COUNT: u32 = 1 << 1; // C04
pub const VERDICT: u32 = 1 << 2; // C03
pub const COW: u32 = 1 << 3; // C08
pub const UNWRAP: u32 = 1 << 4; // C09
pub const THIN: u32 = 1 << 5; // C10
pub const ADDRESS: u32 = 1 << 6; // C11
pub const UNION: u32 = 1 << 7; // C12
pub const UNINIT: u32 = 1 << 8; // C15
pub const LAYOUT: u32 = 1 << 9; // C05
pub const CTOR: u32 = 1 << 10; // C06

pub fn class_names(c: u32) -> String {
    let names = ["LIFETIME", "COUNT", "VERDICT", "COW", "UNWRAP", "THIN", "ADDRESS", "UNION", "UNINIT", "LAYOUT", "CTOR"];
    let mut v = vec![];
    for (i, n) in names.iter().enumerate() {
        if c & (1 << i) != 0 {
            v.push(*n);
        }
    }
    v.join("|")
}
pub fn parse_classes(s: &str) -> u32 {
    let names = ["LIFETIME", "COUNT", "VERDICT", "COW", "UNWRAP", "THIN", "ADDRESS", "UNION", "UNINIT", "LAYOUT", "CTOR"];
    let mut c = 0;
    for part in s.split(|ch| ch == ',' || ch == '|') {
        if part == "ALL" {
            return (1 << names.len()) - 1;
        }
        if let Some(i) = names.iter().position(|n| *n == part) {
            c |= 1 << i;
        } else if !part.is_empty() {
            panic!("unknown class {}", part);
        }
    }
    c
}

#[derive(Clone, Debug)]
pub struct Mismatch {
    pub classes: u32,
    pub code: String, // stable short identifier, used for known-finding keys
    pub msg: String,
    /// the implementation did something *semantically* different from the model (other
    /// allocation, other branch): the model can no longer follow this path
    pub derail: bool,
}

#[derive(Default)]
pub struct Ctx {
    pub mism: Vec<Mismatch>,
}
impl Ctx {
    pub fn fail(&mut self, classes: u32, code: &str, msg: String) {
        self.mism.push(Mismatch { classes, code: code.to_string(), msg, derail: false });
    }
    pub fn fail_derail(&mut self, classes: u32, code: &str, msg: String) {
        self.mism.push(Mismatch { classes, code: code.to_string(), msg, derail: true });
    }
    pub fn derailed(&self) -> bool {
        self.mism.iter().any(|m| m.derail)
    }
}

#[derive(Clone, Debug)]
pub struct Bounds {
    pub max_handles: usize,
    pub max_allocs: usize,
}

pub trait Universe: Sync {
    type Real;
    type Model: Clone + Send + Sync;
    type Op: Clone + Send + Sync + std::fmt::Debug;
    const NAME: &'static str;
    fn new() -> (Self::Real, Self::Model);
    fn enabled(m: &Self::Model, b: &Bounds) -> Vec<Self::Op>;
    /// Execute `op` on the real crate and on the model, comparing. Returns false
    /// when lock-step cannot continue (control outcome diverged or op impossible).
    fn step(r: &mut Self::Real, m: &mut Self::Model, op: &Self::Op, cx: &mut Ctx) -> bool;
    /// Observe every handle. With `model_ok == false` only the model-independent
    /// invariants are evaluated (the model was derailed by an out-of-class divergence).
    fn observe(r: &Self::Real, m: &Self::Model, model_ok: bool, cx: &mut Ctx);
    /// Release everything (order flag picks one of two orders) and run the closing check.
    fn finish(r: Self::Real, m: Self::Model, reverse: bool, cx: &mut Ctx);
    /// The model was derailed: release every real handle without consulting it and evaluate the
    /// model-independent invariants once more (leaks and double destruction still show).
    fn abandon(r: Self::Real, cx: &mut Ctx);
    fn key(m: &Self::Model) -> Vec<u8>;
    fn op_str(op: &Self::Op) -> String;
    fn op_parse(s: &str) -> Option<Self::Op>;
    fn op_name(op: &Self::Op) -> String;
}

#[derive(Clone, Debug)]
pub struct Violation {
    pub classes: u32,
    pub code: String,
    pub msg: String,
    pub history: Vec<String>,
    pub op_name: String,
}

pub struct Outcome<M> {
    pub key: Option<Vec<u8>>, // None = path cut
    pub model: Option<M>,
    pub mism: Vec<Mismatch>,
    pub replay_broken: bool,
}

pub fn hist_str<U: Universe>(h: &[U::Op]) -> String {
    h.iter().map(|o| U::op_str(o)).collect::<Vec<_>>().join(" ")
}

/// Execute `history` then `op` on a fresh arena; check only the last step.
pub fn execute<U: Universe>(history: &[U::Op], op: Option<&U::Op>, reverse_finish: bool) -> Outcome<U::Model> {
    vrt::begin_execution();
    let (mut r, mut m) = U::new();
    let mut scratch = Ctx::default();
    for h in history {
        if !U::step(&mut r, &mut m, h, &mut scratch) {
            U::abandon(r, &mut scratch);
            return Outcome { key: None, model: None, mism: scratch.mism, replay_broken: true };
        }
    }
    let mut cx = Ctx::default();
    if let Some(op) = op {
        if !U::step(&mut r, &mut m, op, &mut cx) {
            // release what exists (a crate-global such as a shared static must not carry a leaked
            // count into the next execution); the model-independent invariants are evaluated once more
            let mut tail = Ctx::default();
            U::abandon(r, &mut tail);
            return Outcome { key: None, model: None, mism: cx.mism, replay_broken: false };
        }
    }
    if cx.derailed() {
        U::observe(&r, &m, false, &mut cx);
        U::abandon(r, &mut cx);
        return Outcome { key: None, model: None, mism: cx.mism, replay_broken: false };
    }
    U::observe(&r, &m, true, &mut cx);
    let key = U::key(&m);
    let mm = m.clone();
    U::finish(r, m, reverse_finish, &mut cx);
    Outcome { key: Some(key), model: Some(mm), mism: cx.mism, replay_broken: false }
}

pub struct Report {
    pub universe: &'static str,
    pub states: usize,
    pub transitions: usize,
    pub merged: usize,
    pub levels: usize,
    pub exhaustive: bool,
    pub cap_hit: Option<String>,
    pub diverged_out_of_scope: usize,
    pub out_of_class_mismatches: usize,
    pub violations: Vec<Violation>,
    pub op_counts: BTreeMap<String, usize>,
    pub samples: Vec<String>,
    pub longest: usize,
    pub wall_s: f64,
}
impl Report {
    pub fn to_json(&self) -> J {
        let mut o = J::obj();
        o.set("universe", J::s(self.universe));
        o.set("states", J::i(self.states));
        o.set("transitions", J::i(self.transitions));
        o.set("merged_transitions", J::i(self.merged));
        o.set("levels", J::i(self.levels));
        o.set("exhaustive", J::B(self.exhaustive));
        o.set("cap_hit", self.cap_hit.clone().map(J::S).unwrap_or(J::Null));
        o.set("diverged_out_of_scope", J::i(self.diverged_out_of_scope));
        o.set("out_of_class_mismatches", J::i(self.out_of_class_mismatches));
        o.set("longest_history", J::i(self.longest));
        o.set("wall_s", J::F(self.wall_s));
        let mut oc = J::obj();
        for (k, v) in &self.op_counts {
            oc.set(k, J::i(*v));
        }
        o.set("transitions_by_op", oc);
        o.set("samples", J::arr(self.samples.iter().cloned()));
        o.set(
            "violations",
            J::A(self
                .violations
                .iter()
                .map(|v| {
                    let mut j = J::obj();
                    j.set("classes", J::s(class_names(v.classes)));
                    j.set("code", J::s(v.code.clone()));
                    j.set("msg", J::s(v.msg.clone()));
                    j.set("universe", J::s(self.universe));
                    j.set("op", J::s(v.op_name.clone()));
                    j.set("history", J::s(v.history.join(" ")));
                    j
                })
                .collect()),
        );
        o
    }
}

pub struct Limits {
    pub wall_s: f64,
    pub max_states: usize,
    pub threads: usize,
    pub max_violations: usize,
}

pub fn bfs<U: Universe>(bounds: &Bounds, classes: u32, lim: &Limits, skip: &HashSet<String>) -> Report {
    let t0 = Instant::now();
    let (_, m0) = {
        vrt::begin_execution();
        let (r, m) = U::new();
        let mut cx = Ctx::default();
        U::finish(r, m.clone(), false, &mut cx);
        ((), m)
    };
    let mut seen: HashSet<Vec<u8>> = HashSet::new();
    seen.insert(U::key(&m0));
    let mut frontier: Vec<(U::Model, Vec<U::Op>)> = vec![(m0, vec![])];
    let mut rep = Report {
        universe: U::NAME,
        states: 1,
        transitions: 0,
        merged: 0,
        levels: 0,
        exhaustive: false,
        cap_hit: None,
        diverged_out_of_scope: 0,
        out_of_class_mismatches: 0,
        violations: vec![],
        op_counts: BTreeMap::new(),
        samples: vec![],
        longest: 0,
        wall_s: 0.0,
    };
    let stop = AtomicBool::new(false);
    loop {
        if frontier.is_empty() {
            rep.exhaustive = rep.violations.is_empty() || true;
            break;
        }
        // one level, in parallel
        struct Out<U: Universe> {
            hist: Vec<U::Op>,
            hs: String,
            key: Option<Vec<u8>>,
            model: Option<U::Model>,
            mism: Vec<Mismatch>,
            broken: bool,
        }
        let next = AtomicUsize::new(0);
        let nthreads = lim.threads.max(1).min(frontier.len().max(1));
        let mut outs: Vec<Out<U>> = vec![];
        let chunks: Vec<Vec<Out<U>>> = std::thread::scope(|sc| {
            let mut hs = vec![];
            for _ in 0..nthreads {
                hs.push(sc.spawn(|| {
                    vrt::arena::init_thread(1 << 20, 1024, 4096);
                    let mut local: Vec<Out<U>> = vec![];
                    loop {
                        let i = next.fetch_add(1, Ordering::Relaxed);
                        if i >= frontier.len() || stop.load(Ordering::Relaxed) {
                            break;
                        }
                        if t0.elapsed().as_secs_f64() > lim.wall_s {
                            stop.store(true, Ordering::Relaxed);
                            break;
                        }
                        let (m, hist) = &frontier[i];
                        for op in U::enabled(m, bounds) {
                            let mut h2 = hist.clone();
                            h2.push(op.clone());
                            let hs_ = hist_str::<U>(&h2);
                            if skip.contains(&hs_) {
                                local.push(Out { hist: h2, hs: hs_, key: None, model: None, mism: vec![Mismatch { classes: LIFETIME, code: "crash".into(), msg: "process crashed (fatal signal) while executing this history".into(), derail: true }], broken: false });
                                continue;
                            }
                            vrt::crash::set_inflight(&format!("{} {}", U::NAME, hs_));
                            let reverse = (h2.len() + i) % 2 == 1;
                            let o = execute::<U>(hist, Some(&op), reverse);
                            local.push(Out { hist: h2, hs: hs_, key: o.key, model: o.model, mism: o.mism, broken: o.replay_broken });
                        }
                    }
                    vrt::crash::idle();
                    local
                }));
            }
            hs.into_iter().map(|h| h.join().expect("worker panicked")).collect()
        });
        for c in chunks {
            outs.extend(c);
        }
        if stop.load(Ordering::Relaxed) {
            rep.cap_hit = Some(format!("wall clock {}s during level {} (level discarded; states/transitions are those of completed levels)", lim.wall_s, rep.levels + 1));
            break;
        }
        // deterministic merge
        outs.sort_by(|a, b| (a.key.as_ref(), &a.hs).cmp(&(b.key.as_ref(), &b.hs)));
        let mut newf: Vec<(U::Model, Vec<U::Op>)> = vec![];
        for o in outs {
            rep.transitions += 1;
            let last = o.hist.last().unwrap();
            *rep.op_counts.entry(U::op_name(last)).or_insert(0) += 1;
            if o.broken {
                rep.violations.push(Violation { classes: 0, code: "machinery:replay-diverged".into(), msg: "prefix replay diverged (nondeterminism)".into(), history: o.hist.iter().map(|x| U::op_str(x)).collect(), op_name: U::op_name(last) });
                continue;
            }
            let inclass: Vec<&Mismatch> = o.mism.iter().filter(|m| m.classes & classes != 0).collect();
            let outclass = o.mism.len() - inclass.len();
            rep.out_of_class_mismatches += outclass;
            if let Some(mm) = inclass.first() {
                if rep.violations.len() < lim.max_violations {
                    rep.violations.push(Violation { classes: mm.classes, code: mm.code.clone(), msg: mm.msg.clone(), history: o.hist.iter().map(|x| U::op_str(x)).collect(), op_name: U::op_name(last) });
                }
                continue; // cut: the violation is reported, deeper paths would cascade
            }
            match o.key {
                None => {
                    rep.diverged_out_of_scope += 1;
                }
                Some(k) => {
                    if seen.insert(k) {
                        rep.states += 1;
                        rep.longest = rep.longest.max(o.hist.len());
                        if rep.samples.len() < 6 && (rep.states % 97 == 3 || o.hist.len() >= 6) {
                            rep.samples.push(hist_str::<U>(&o.hist));
                        }
                        newf.push((o.model.unwrap(), o.hist));
                    } else {
                        rep.merged += 1;
                    }
                }
            }
        }
        rep.levels += 1;
        if rep.states > lim.max_states {
            rep.cap_hit = Some(format!("state cap {}", lim.max_states));
            break;
        }
        frontier = newf;
    }
    if rep.samples.is_empty() {
        rep.samples.push("(initial state only)".into());
    }
    rep.wall_s = t0.elapsed().as_secs_f64();
    rep
}

/// Replay one history with full checking at every step; returns all mismatches per step.
pub fn replay<U: Universe>(h: &[U::Op]) -> Vec<(usize, Mismatch)> {
    let mut res = vec![];
    for n in 0..=h.len() {
        let (pre, op) = if n == 0 { (&h[..0], None) } else { (&h[..n - 1], Some(&h[n - 1])) };
        let o = execute::<U>(pre, op, false);
        for m in o.mism {
            res.push((n, m));
        }
        if o.key.is_none() {
            break;
        }
    }
    res
}
