//! seqx — explicit-state exploration of handle histories on the real crate.
mod cmp;
mod engine;
mod ul;
mod us {
    pub type P = vrt::track::Tracked<1>;
    pub const UNAME: &str = "S";
    include!("us_body.rs");
}
mod usw {
    pub type P = vrt::track::TrackedW<1>;
    pub const UNAME: &str = "SW";
    include!("us_body.rs");
}
mod usb {
    pub type P = vrt::track::TrackedB<1>;
    pub const UNAME: &str = "SB";
    include!("us_body.rs");
}
mod ut {
    pub type EE = vrt::track::Tracked<4>;
    pub const UNAME: &str = "T";
    include!("ut_body.rs");
}
mod utw {
    pub type EE = vrt::track::TrackedW<4>;
    pub const UNAME: &str = "TW";
    include!("ut_body.rs");
}

use engine::*;
use std::collections::HashSet;
use vrt::json::J;

#[global_allocator]
static GLOBAL: vrt::VAlloc = vrt::VAlloc;

fn arg(args: &[String], name: &str) -> Option<String> {
    args.iter().position(|a| a == name).and_then(|i| args.get(i + 1).cloned())
}

fn run<U: Universe>(args: &[String]) -> J {
    let handles: usize = arg(args, "--handles").map(|s| s.parse().unwrap()).unwrap_or(3);
    let allocs: usize = arg(args, "--allocs").map(|s| s.parse().unwrap()).unwrap_or(2);
    let classes = parse_classes(&arg(args, "--classes").unwrap_or("ALL".into()));
    let wall: f64 = arg(args, "--wall").map(|s| s.parse().unwrap()).unwrap_or(50.0);
    let threads: usize = arg(args, "--threads").map(|s| s.parse().unwrap()).unwrap_or(16);
    let max_states: usize = arg(args, "--max-states").map(|s| s.parse().unwrap()).unwrap_or(5_000_000);
    let mut skip = HashSet::new();
    if let Some(f) = arg(args, "--skip-file") {
        if let Ok(s) = std::fs::read_to_string(f) {
            for l in s.lines() {
                // lines look like: "CRASH signal=11 S <history>"
                if let Some(rest) = l.split_once(&format!(" {} ", U::NAME)).map(|x| x.1) {
                    skip.insert(rest.trim().to_string());
                }
            }
        }
    }
    if let Some(h) = arg(args, "--replay") {
        let ops: Vec<U::Op> = h.split_whitespace().map(|t| U::op_parse(t).unwrap_or_else(|| panic!("cannot parse op {}", t))).collect();
        vrt::arena::init_thread(1 << 20, 1024, 4096);
        vrt::crash::set_inflight(&format!("{} {}", U::NAME, h));
        let a = replay::<U>(&ops);
        let b = replay::<U>(&ops);
        let fmt = |v: &Vec<(usize, Mismatch)>| v.iter().map(|(n, m)| format!("step {}: [{}] {}: {}", n, class_names(m.classes), m.code, m.msg)).collect::<Vec<_>>();
        let (fa, fb) = (fmt(&a), fmt(&b));
        let mut o = J::obj();
        o.set("universe", J::s(U::NAME));
        o.set("history", J::s(h));
        o.set("deterministic", J::B(fa == fb));
        o.set("mismatches", J::arr(fa.iter().cloned()));
        o.set("in_class", J::i(a.iter().filter(|(_, m)| m.classes & classes != 0).count()));
        return o;
    }
    let rep = bfs::<U>(&Bounds { max_handles: handles, max_allocs: allocs }, classes, &Limits { wall_s: wall, max_states, threads, max_violations: 25 }, &skip);
    let mut j = rep.to_json();
    j.set("bounds", J::s(format!("live owning handles <= {}, live allocations <= {}", handles, allocs)));
    j.set("classes", J::s(class_names(classes)));
    j
}

fn main() {
    let args: Vec<String> = std::env::args().collect();
    vrt::quiet_panics();
    vrt::rmwlog::install();
    if let Some(c) = arg(&args, "--crash-file") {
        vrt::crash::install(&c);
        vrt::crash::start_watchdog(30);
    }
    let uni = arg(&args, "--universe").unwrap_or("S".into());
    let j = match uni.as_str() {
        "S" => run::<us::US>(&args),
        "SW" => run::<usw::US>(&args),
        "SB" => run::<usb::US>(&args),
        "T" => run::<ut::UT>(&args),
        "TW" => run::<utw::UT>(&args),
        "L" => run::<ul::UL>(&args),
        _ => panic!("unknown universe"),
    };
    let out = j.dump();
    match arg(&args, "--out") {
        Some(f) => std::fs::write(f, out).unwrap(),
        None => println!("{}", out),
    }
}
