// Universe S: sized payload, every handle kind (DESIGN §2.4). Included twice (see main.rs): once with
// an 8-aligned payload ("S") and once with a 64-aligned one ("SW"); `P` and `UNAME` come from the includer.
use crate::cmp::*;
use crate::engine::*;
use std::alloc::Layout;
use triomphe::verif_hook::Rmw;
use triomphe::{Arc, ArcBorrow, ArcUnion, ArcUnionBorrow, HeaderSlice, OffsetArc, UniqueArc};
use vrt::arena::cap;
use vrt::rmwlog;
use vrt::track::{self, Peek, Tracked};

#[repr(C, align(16))]
pub struct Q(Tracked<2>, [u8; 24]);

pub trait Probe {
    fn pk(&self) -> Peek;
    fn flip_dyn(&mut self);
}
impl Probe for P {
    fn pk(&self) -> Peek {
        self.peek()
    }
    fn flip_dyn(&mut self) {
        self.flip()
    }
}

#[derive(Clone, Copy, PartialEq, Eq, PartialOrd, Ord, Debug, Hash)]
pub enum K {
    A,
    O,
    U1,
    U2,
    X,
    R,
    E,
    D,
    Rd,
    W,
    Xd,
}

pub enum H {
    A(Arc<P>),
    O(OffsetArc<P>),
    U1(ArcUnion<P, Q>),
    U2(ArcUnion<Q, P>),
    X(UniqueArc<P>),
    R(*const P),
    E(Arc<HeaderSlice<(), P>>),
    D(Arc<dyn Probe>),
    Rd(*const dyn Probe),
    #[allow(dead_code)]
    W(*mut P),
    Xd(UniqueArc<dyn Probe>),
}

#[derive(Clone, Debug)]
pub struct MA {
    pub id: u32,
    pub val: u32,
    pub owners: u32,
    pub block: usize,
    pub data: usize,
}
#[derive(Clone, Debug)]
pub struct MH {
    pub k: K,
    pub a: usize,
}
#[derive(Clone, Debug)]
pub struct Model {
    pub slots: [Option<MA>; 3],
    pub hs: Vec<MH>,
}
pub struct Real {
    pub hs: Vec<H>,
    /// every payload block ever seen behind a handle: (block start, payload id)
    pub blocks: Vec<(usize, u32)>,
}

fn data_ptr(h: &H) -> usize {
    match h {
        H::A(a) => a.as_ptr() as usize,
        H::O(o) => &**o as *const P as usize,
        H::U1(u) => match u.borrow() {
            ArcUnionBorrow::First(b) => b.get() as *const P as usize,
            ArcUnionBorrow::Second(b) => b.get() as *const Q as usize,
        },
        H::U2(u) => match u.borrow() {
            ArcUnionBorrow::Second(b) => b.get() as *const P as usize,
            ArcUnionBorrow::First(b) => b.get() as *const Q as usize,
        },
        H::X(x) => &**x as *const P as usize,
        H::R(r) => *r as usize,
        H::E(e) => &e.slice as *const P as usize,
        H::D(d) => d.as_ptr() as *const () as usize,
        H::Rd(r) => *r as *const () as usize,
        H::W(w) => *w as usize,
        H::Xd(x) => &**x as *const dyn Probe as *const () as usize,
    }
}

impl Real {
    fn register(&mut self) {
        for h in &self.hs {
            let p = data_ptr(h);
            if let Some((addr, _, _, _)) = vrt::arena::block_of(p) {
                if !self.blocks.iter().any(|b| b.0 == addr) {
                    let pk = unsafe { (*(p as *const P)).peek() };
                    self.blocks.push((addr, pk.id));
                }
            }
        }
    }
    /// C01 stated on the real objects only: a value is intact while some handle points at its
    /// block, and destroyed exactly once (block returned) when none does.
    fn invariant(&self, cx: &mut Ctx) {
        let drops = track::drops_since(0);
        let mut owners = vec![0usize; self.blocks.len()];
        for (i, h) in self.hs.iter().enumerate() {
            let p = data_ptr(h);
            match vrt::arena::block_of(p) {
                None => cx.fail(LIFETIME | ADDRESS, "handle-outside-heap", format!("handle#{} {:?} points to {:#x}, which is in no block obtained from the allocator", i, kind_of(h), p)),
                Some((addr, _, _, live)) => {
                    if !live {
                        cx.fail(LIFETIME, "use-after-free", format!("handle#{} {:?} points into block {:#x}, which has been returned to the allocator", i, kind_of(h), addr));
                    }
                    let pk = unsafe { (*(p as *const P)).peek() };
                    if !pk.intact() {
                        cx.fail(LIFETIME, "handle-to-destroyed-value", format!("handle#{} {:?} reads a {} value", i, kind_of(h), pk.describe()));
                    }
                    if let Some(k) = self.blocks.iter().position(|b| b.0 == addr) {
                        owners[k] += 1;
                    }
                }
            }
        }
        // C04 on the real objects only: the count reported through a handle equals the number of
        // handles whose pointer resolves into the same block
        for h in self.hs.iter() {
            let reported = match h {
                H::A(x) => Some(Arc::count(x)),
                H::O(x) => Some(OffsetArc::strong_count(x)),
                H::U1(x) => Some(ArcUnion::strong_count(x)),
                H::U2(x) => Some(ArcUnion::strong_count(x)),
                H::E(x) => Some(Arc::count(x)),
                H::D(x) => Some(Arc::count(x)),
                _ => None,
            };
            if let (Some(c), Some((addr, _, _, true))) = (reported, vrt::arena::block_of(data_ptr(h))) {
                if let Some(k) = self.blocks.iter().position(|b| b.0 == addr) {
                    if c != owners[k] {
                        cx.fail(COUNT, "count-vs-handles", format!("a {:?} handle reports a count of {}, {} owning handle(s) refer to that allocation", kind_of(h), c, owners[k]));
                    }
                }
            }
        }
        for (k, (block, id)) in self.blocks.iter().enumerate() {
            let nd = drops.iter().filter(|d| **d == (1u8, *id)).count();
            let live = vrt::arena::block_of(*block).map(|b| b.3).unwrap_or(false);
            if owners[k] > 0 {
                if nd > 0 {
                    cx.fail(LIFETIME, "destroyed-while-owned", format!("value id {} was destroyed {} time(s) while {} owning handle(s) still refer to it", id, nd, owners[k]));
                }
            } else {
                if live {
                    cx.fail(LIFETIME, "leak", format!("block {:#x} (value id {}) is still allocated although no owning handle refers to it", block, id));
                }
                if nd != 1 {
                    cx.fail(LIFETIME, "destroyed-not-once", format!("value id {} has no owning handle left and its destructor ran {} times (must be exactly once)", id, nd));
                }
            }
        }
    }
}

#[derive(Clone, Copy, Debug, PartialEq, Eq)]
pub enum Ctor {
    ArcNew,
    FromT,
    FromBox,
    Default,
    UniqueNew,
}
#[derive(Clone, Copy, Debug, PartialEq, Eq)]
pub enum HOp {
    Clone,
    Drop,
    IntoOffset,
    FromOffset,
    IntoU1,
    IntoU2,
    IntoRaw,
    FromRaw,
    Erase,
    Unerase,
    IntoDyn,
    UnsizeDyn,
    DynIntoRaw,
    DynFromRaw,
    IntoW,
    FromW,
    Shareable,
    BorrowCloneArc,
    BorrowWithArcClone,
    FromPtrCloneArc,
    WithRawOffsetClone,
    WithRawOffsetCloneArc,
    OffCloneArc,
    OffWithArcClone,
    OffBorrowCloneArc,
    UBorrowCloneArc,
    UAsVariantCloneArc,
    RawBorrowCloneArc,
    GetMutW,
    GetUniqueW,
    MakeMutW,
    MakeUniqueW,
    OffMakeMutW,
    TryUnique,
    TryFromU,
    TryUnwrap,
    UnwrapOrClone,
    IntoInner,
    DerefMutW,
    DynGetMutW,
    /// unsized unique handles: Arc<dyn> -> UniqueArc<dyn> (try_unique on an unsized payload),
    /// UniqueArc<T> -> UniqueArc<dyn> (unsize feature), back to a shareable Arc<dyn>
    DynTryUnique,
    UnsizeUnique,
    DynShareable,
    DynDerefMutW,
    /// the same call with the payload's `Clone` armed to panic at its first invocation
    MakeMutPanic,
    MakeUniquePanic,
    OffMakeMutPanic,
    UnwrapOrClonePanic,
}
const ALL_HOPS: &[HOp] = &[
    HOp::Clone,
    HOp::Drop,
    HOp::IntoOffset,
    HOp::FromOffset,
    HOp::IntoU1,
    HOp::IntoU2,
    HOp::IntoRaw,
    HOp::FromRaw,
    HOp::Erase,
    HOp::Unerase,
    HOp::IntoDyn,
    HOp::UnsizeDyn,
    HOp::DynIntoRaw,
    HOp::DynFromRaw,
    HOp::IntoW,
    HOp::FromW,
    HOp::Shareable,
    HOp::BorrowCloneArc,
    HOp::BorrowWithArcClone,
    HOp::FromPtrCloneArc,
    HOp::WithRawOffsetClone,
    HOp::WithRawOffsetCloneArc,
    HOp::OffCloneArc,
    HOp::OffWithArcClone,
    HOp::OffBorrowCloneArc,
    HOp::UBorrowCloneArc,
    HOp::UAsVariantCloneArc,
    HOp::RawBorrowCloneArc,
    HOp::GetMutW,
    HOp::GetUniqueW,
    HOp::MakeMutW,
    HOp::MakeUniqueW,
    HOp::OffMakeMutW,
    HOp::TryUnique,
    HOp::TryFromU,
    HOp::TryUnwrap,
    HOp::UnwrapOrClone,
    HOp::IntoInner,
    HOp::DerefMutW,
    HOp::DynGetMutW,
    HOp::DynTryUnique,
    HOp::UnsizeUnique,
    HOp::DynShareable,
    HOp::DynDerefMutW,
    HOp::MakeMutPanic,
    HOp::MakeUniquePanic,
    HOp::OffMakeMutPanic,
    HOp::UnwrapOrClonePanic,
];
const ALL_CTORS: &[Ctor] = &[Ctor::ArcNew, Ctor::FromT, Ctor::FromBox, Ctor::Default, Ctor::UniqueNew];

#[derive(Clone, Copy, Debug, PartialEq, Eq)]
pub enum Op {
    New(Ctor),
    H(u8, HOp),
}

fn applicable(k: K, op: HOp) -> bool {
    use HOp::*;
    match op {
        Clone => matches!(k, K::A | K::O | K::U1 | K::U2 | K::E | K::D),
        Drop => matches!(k, K::A | K::O | K::U1 | K::U2 | K::E | K::D | K::X | K::Xd),
        DynTryUnique => k == K::D,
        UnsizeUnique => k == K::X && cfg!(feature = "cfg_all"),
        DynShareable | DynDerefMutW => k == K::Xd,
        IntoOffset | IntoU1 | IntoU2 | IntoRaw | Erase | IntoDyn | BorrowCloneArc | BorrowWithArcClone | FromPtrCloneArc | WithRawOffsetClone | WithRawOffsetCloneArc | GetMutW | GetUniqueW | MakeMutW | MakeUniqueW | TryUnique | TryFromU | TryUnwrap | UnwrapOrClone | MakeMutPanic | MakeUniquePanic | UnwrapOrClonePanic => k == K::A,
        UnsizeDyn | IntoW => k == K::A && cfg!(feature = "cfg_all"),
        FromW => k == K::W,
        FromOffset | OffCloneArc | OffWithArcClone | OffBorrowCloneArc | OffMakeMutW | OffMakeMutPanic => k == K::O,
        FromRaw | RawBorrowCloneArc => k == K::R,
        Unerase => k == K::E,
        DynIntoRaw | DynGetMutW => k == K::D,
        DynFromRaw => k == K::Rd,
        Shareable | IntoInner | DerefMutW => k == K::X,
        UBorrowCloneArc | UAsVariantCloneArc => matches!(k, K::U1 | K::U2),
    }
}
/// does the op add a handle?
fn adds_handle(op: HOp) -> bool {
    use HOp::*;
    matches!(op, Clone | BorrowCloneArc | BorrowWithArcClone | FromPtrCloneArc | WithRawOffsetClone | WithRawOffsetCloneArc | OffCloneArc | OffWithArcClone | OffBorrowCloneArc | UBorrowCloneArc | UAsVariantCloneArc | RawBorrowCloneArc)
}
fn may_allocate(op: HOp) -> bool {
    matches!(op, HOp::MakeMutW | HOp::MakeUniqueW | HOp::OffMakeMutW)
}
fn home(op: HOp) -> u32 {
    use HOp::*;
    match op {
        GetMutW | GetUniqueW | DerefMutW | DynGetMutW | DynDerefMutW => VERDICT,
        DynTryUnique => VERDICT | UNWRAP,
        TryUnique | TryFromU => VERDICT | UNWRAP,
        MakeMutW | MakeUniqueW | OffMakeMutW => COW,
        MakeMutPanic | MakeUniquePanic | OffMakeMutPanic | UnwrapOrClonePanic => COW | UNWRAP | LIFETIME,
        TryUnwrap | UnwrapOrClone | IntoInner => UNWRAP,
        IntoU1 | IntoU2 | UBorrowCloneArc | UAsVariantCloneArc => UNION | LIFETIME,
        IntoRaw | FromRaw | DynIntoRaw | DynFromRaw | IntoW | FromW | IntoDyn => ADDRESS | LIFETIME,
        _ => LIFETIME,
    }
}

pub fn inner_layout() -> (Layout, usize) {
    let (l, off) = Layout::new::<usize>().extend(Layout::new::<P>()).unwrap();
    (l.pad_to_align(), off)
}

impl Model {
    fn free_slot(&self) -> Option<usize> {
        self.slots.iter().position(|s| s.is_none())
    }
    fn al(&self, a: usize) -> &MA {
        self.slots[a].as_ref().expect("model: handle to dead slot")
    }
    fn al_mut(&mut self, a: usize) -> &mut MA {
        self.slots[a].as_mut().expect("model: handle to dead slot")
    }
    /// expectation for releasing one owner of slot a; updates the model
    fn release(&mut self, a: usize, e: &mut Exp) {
        let (il, _) = inner_layout();
        let al = self.al_mut(a);
        e.rmw.push((al.block, il.size(), Rmw::Sub, 1));
        al.owners -= 1;
        if al.owners == 0 {
            e.rmw_optional.push(e.rmw.len() - 1);
            e.drops.push((1, al.id));
            e.events.push(ExpEv::Dealloc { addr: al.block, size: il.size(), align: il.align() });
            self.slots[a] = None;
        }
    }
    fn addref(&mut self, a: usize, e: &mut Exp) {
        let (il, _) = inner_layout();
        let al = self.al_mut(a);
        e.rmw.push((al.block, il.size(), Rmw::Add, 1));
        al.owners += 1;
    }
}

pub struct US;

fn step_inner(r: &mut Real, m: &mut Model, op: &Op, cx: &mut Ctx) -> bool {
    let (il, doff) = inner_layout();
        let what = US::op_str(op);
        match *op {
            Op::New(c) => {
                let Some(slot) = m.free_slot() else { return false };
                let id = track::next_id_peek();
                let s = snap();
                let mut exp = Exp::default();
                let bl = Layout::new::<P>();
                let (h, k) = cap(|| match c {
                    Ctor::ArcNew => (H::A(Arc::new(P::new(0))), K::A),
                    Ctor::FromT => (H::A(Arc::from(P::new(0))), K::A),
                    Ctor::FromBox => (H::A(Arc::from(Box::new(P::new(0)))), K::A),
                    Ctor::Default => (H::A(Arc::<P>::default()), K::A),
                    Ctor::UniqueNew => (H::X(UniqueArc::new(P::new(0))), K::X),
                });
                if c == Ctor::FromBox {
                    exp.events.push(ExpEv::Alloc { size: bl.size(), align: bl.align() });
                    exp.events.push(ExpEv::Alloc { size: il.size(), align: il.align() });
                    exp.events.push(ExpEv::DeallocOfStepAlloc { nth: 0 });
                } else {
                    exp.events.push(ExpEv::Alloc { size: il.size(), align: il.align() });
                }
                let d = delta(&s);
                let nb = compare(&exp, &d, LIFETIME | CTOR, false, &what, cx);
                let block = if c == Ctor::FromBox { nb.get(1) } else { nb.first() };
                let Some(&block) = block else {
                    cap(|| release_real(h)); // nothing may leak into the next execution
                    return false;
                };
                m.slots[slot] = Some(MA { id, val: 0, owners: 1, block, data: block + doff });
                m.hs.push(MH { k, a: slot });
                r.hs.push(h);
                true
            }
            Op::H(i, hop) => {
                let i = i as usize;
                if i >= m.hs.len() || !applicable(m.hs[i].k, hop) || kind_of(&r.hs[i]) != m.hs[i].k {
                    return false;
                }
                let a = m.hs[i].a;
                let hc = home(hop);
                let s = snap();
                let mut exp = Exp::default();
                use HOp::*;
                match hop {
                    Clone | BorrowCloneArc | BorrowWithArcClone | FromPtrCloneArc | WithRawOffsetClone | WithRawOffsetCloneArc | OffCloneArc | OffWithArcClone | OffBorrowCloneArc | UBorrowCloneArc | UAsVariantCloneArc | RawBorrowCloneArc => {
                        let mut bad: Option<String> = None;
                        let nh: H = cap(|| match (&r.hs[i], hop) {
                            (H::A(x), Clone) => H::A(x.clone()),
                            (H::O(x), Clone) => H::O(x.clone()),
                            (H::U1(x), Clone) => H::U1(x.clone()),
                            (H::U2(x), Clone) => H::U2(x.clone()),
                            (H::E(x), Clone) => H::E(x.clone()),
                            (H::D(x), Clone) => H::D(x.clone()),
                            (H::A(x), BorrowCloneArc) => H::A(x.borrow_arc().clone_arc()),
                            (H::A(x), BorrowWithArcClone) => H::A(x.borrow_arc().with_arc(|t| t.clone())),
                            (H::A(x), FromPtrCloneArc) => H::A(unsafe { ArcBorrow::from_ptr(x.as_ptr()) }.clone_arc()),
                            (H::A(x), WithRawOffsetClone) => H::O(x.with_raw_offset_arc(|o| o.clone())),
                            (H::A(x), WithRawOffsetCloneArc) => H::A(x.with_raw_offset_arc(|o| o.clone_arc())),
                            (H::O(x), OffCloneArc) => H::A(x.clone_arc()),
                            (H::O(x), OffWithArcClone) => H::A(x.with_arc(|t| t.clone())),
                            (H::O(x), OffBorrowCloneArc) => H::A(x.borrow_arc().clone_arc()),
                            (H::U1(x), UBorrowCloneArc) => match x.borrow() {
                                ArcUnionBorrow::First(b) => H::A(b.clone_arc()),
                                ArcUnionBorrow::Second(_) => {
                                    bad = Some("union built from_first reports Second".into());
                                    H::R(std::ptr::null())
                                }
                            },
                            (H::U2(x), UBorrowCloneArc) => match x.borrow() {
                                ArcUnionBorrow::Second(b) => H::A(b.clone_arc()),
                                ArcUnionBorrow::First(_) => {
                                    bad = Some("union built from_second reports First".into());
                                    H::R(std::ptr::null())
                                }
                            },
                            (H::U1(x), UAsVariantCloneArc) => match (x.as_first(), x.as_second().is_none()) {
                                (Some(b), true) => H::A(b.clone_arc()),
                                _ => {
                                    bad = Some("as_first/as_second disagree with from_first".into());
                                    H::R(std::ptr::null())
                                }
                            },
                            (H::U2(x), UAsVariantCloneArc) => match (x.as_second(), x.as_first().is_none()) {
                                (Some(b), true) => H::A(b.clone_arc()),
                                _ => {
                                    bad = Some("as_first/as_second disagree with from_second".into());
                                    H::R(std::ptr::null())
                                }
                            },
                            (H::R(x), RawBorrowCloneArc) => H::A(unsafe { ArcBorrow::from_ptr(*x) }.clone_arc()),
                            _ => unreachable!(),
                        });
                        if let Some(b) = bad {
                            cx.fail(UNION, "union-variant", format!("{}: {}", what, b));
                            return false;
                        }
                        m.addref(a, &mut exp);
                        compare(&exp, &delta(&s), hc, false, &what, cx);
                        m.hs.push(MH { k: kind_of(&nh), a });
                        r.hs.push(nh);
                        true
                    }
                    Drop => {
                        let h = r.hs.remove(i);
                        m.hs.remove(i);
                        cap(|| drop(h));
                        m.release(a, &mut exp);
                        compare(&exp, &delta(&s), hc, false, &what, cx);
                        true
                    }
                    IntoOffset | FromOffset | IntoU1 | IntoU2 | IntoRaw | FromRaw | Erase | Unerase | IntoDyn | UnsizeDyn | DynIntoRaw | DynFromRaw | IntoW | FromW | Shareable | UnsizeUnique | DynShareable => {
                        let h = r.hs.remove(i);
                        let nh = cap(|| match (h, hop) {
                            (H::A(x), IntoOffset) => H::O(Arc::into_raw_offset(x)),
                            (H::O(x), FromOffset) => H::A(Arc::from_raw_offset(x)),
                            (H::A(x), IntoU1) => H::U1(ArcUnion::from_first(x)),
                            (H::A(x), IntoU2) => H::U2(ArcUnion::from_second(x)),
                            (H::A(x), IntoRaw) => H::R(Arc::into_raw(x)),
                            (H::R(x), FromRaw) => H::A(unsafe { Arc::from_raw(x) }),
                            (H::A(x), Erase) => H::E(Arc::<HeaderSlice<(), P>>::from(x)),
                            (H::E(x), Unerase) => H::A(Arc::<P>::from(x)),
                            (H::A(x), IntoDyn) => {
                                let p = Arc::into_raw(x) as *const dyn Probe;
                                H::D(unsafe { Arc::from_raw(p) })
                            }
                            #[cfg(feature = "cfg_all")]
                            (H::A(x), UnsizeDyn) => {
                                use unsize::{CoerceUnsize, Coercion};
                                H::D(x.unsize(Coercion!(to dyn Probe)))
                            }
                            (H::D(x), DynIntoRaw) => H::Rd(Arc::into_raw(x)),
                            (H::Rd(x), DynFromRaw) => H::D(unsafe { Arc::from_raw(x) }),
                            #[cfg(feature = "cfg_all")]
                            (H::A(x), IntoW) => H::W(<Arc<P> as arc_swap::RefCnt>::into_ptr(x)),
                            #[cfg(feature = "cfg_all")]
                            (H::W(x), FromW) => H::A(unsafe { <Arc<P> as arc_swap::RefCnt>::from_ptr(x) }),
                            (H::X(x), Shareable) => H::A(x.shareable()),
                            #[cfg(feature = "cfg_all")]
                            (H::X(x), UnsizeUnique) => {
                                use unsize::{CoerceUnsize, Coercion};
                                H::Xd(x.unsize(Coercion!(to dyn Probe)))
                            }
                            (H::Xd(x), DynShareable) => H::D(x.shareable()),
                            _ => unreachable!(),
                        });
                        compare(&exp, &delta(&s), hc, false, &what, cx);
                        m.hs[i].k = kind_of(&nh);
                        r.hs.insert(i, nh);
                        true
                    }
                    GetMutW | GetUniqueW | DerefMutW | DynGetMutW | DynDerefMutW => {
                        let granted = cap(|| match (&mut r.hs[i], hop) {
                            (H::Xd(x), DynDerefMutW) => {
                                x.flip_dyn();
                                true
                            }
                            (H::A(x), GetMutW) => Arc::get_mut(x).map(|p| p.flip()).is_some(),
                            (H::A(x), GetUniqueW) => Arc::get_unique(x).map(|u| u.flip()).is_some(),
                            (H::X(x), DerefMutW) => {
                                x.flip();
                                true
                            }
                            (H::D(x), DynGetMutW) => Arc::get_mut(x).map(|p| p.flip_dyn()).is_some(),
                            _ => unreachable!(),
                        });
                        let expect = m.al(a).owners == 1;
                        compare(&exp, &delta(&s), hc, true, &what, cx);
                        if granted != expect {
                            cx.fail(VERDICT, "uniqueness-verdict", format!("{}: mutable access granted={} but the model has {} owning handles", what, granted, m.al(a).owners));
                            return false;
                        }
                        if granted {
                            m.al_mut(a).val ^= 1;
                        }
                        true
                    }
                    MakeMutW | MakeUniqueW | OffMakeMutW => {
                        let owners = m.al(a).owners;
                        let newid = track::next_id_peek();
                        cap(|| match (&mut r.hs[i], hop) {
                            (H::A(x), MakeMutW) => Arc::make_mut(x).flip(),
                            (H::A(x), MakeUniqueW) => Arc::make_unique(x).flip(),
                            (H::O(x), OffMakeMutW) => x.make_mut().flip(),
                            _ => unreachable!(),
                        });
                        if owners == 1 {
                            compare(&exp, &delta(&s), hc, true, &what, cx);
                            m.al_mut(a).val ^= 1;
                            true
                        } else {
                            let Some(slot) = m.free_slot() else { return false };
                            let old = m.al(a).clone();
                            exp.clones.push((1, old.id, newid));
                            exp.events.push(ExpEv::Alloc { size: il.size(), align: il.align() });
                            m.release(a, &mut exp);
                            let d = delta(&s);
                            let nb = compare(&exp, &d, hc, true, &what, cx);
                            let Some(&block) = nb.first() else {
                                cx.fail(COW, "cow-no-copy", format!("{}: handle shared by {} owners was not redirected to a fresh allocation", what, owners));
                                return false;
                            };
                            m.slots[slot] = Some(MA { id: newid, val: old.val ^ 1, owners: 1, block, data: block + doff });
                            m.hs[i].a = slot;
                            true
                        }
                    }
                    MakeMutPanic | MakeUniquePanic | OffMakeMutPanic | UnwrapOrClonePanic => {
                        // only offered while the value is shared (see `enabled`): the clone is attempted and panics
                        let owners = m.al(a).owners;
                        track::arm_clone_panic(1);
                        let res = if hop == UnwrapOrClonePanic {
                            let h = r.hs.remove(i);
                            m.hs.remove(i);
                            let H::A(x) = h else { unreachable!() };
                            vrt::catch(|| cap(|| drop(Arc::unwrap_or_clone(x))))
                        } else {
                            let hh = &mut r.hs[i];
                            vrt::catch(|| {
                                cap(|| match (hh, hop) {
                                    (H::A(x), MakeMutPanic) => Arc::make_mut(x).flip(),
                                    (H::A(x), MakeUniquePanic) => Arc::make_unique(x).flip(),
                                    (H::O(x), OffMakeMutPanic) => x.make_mut().flip(),
                                    _ => unreachable!(),
                                })
                            })
                        };
                        track::arm_clone_panic(0);
                        if res.is_ok() || owners < 2 {
                            cx.fail_derail(COW, "clone-panic-outcome", format!("{}: expected the armed Clone to be called (value shared by {} owners) and its panic to propagate; call returned {:?}", what, owners, res.is_ok()));
                        }
                        if hop == UnwrapOrClonePanic {
                            // the handle passed by value is released while unwinding
                            m.release(a, &mut exp);
                        }
                        // otherwise nothing may have changed: same allocation, same count, same value
                        compare(&exp, &delta(&s), hc, false, &what, cx);
                        true
                    }
                    DynTryUnique => {
                        let h = r.hs.remove(i);
                        let H::D(x) = h else { unreachable!() };
                        let (nh, ok) = cap(|| match Arc::try_unique(x) {
                            Ok(u) => (H::Xd(u), true),
                            Err(a) => (H::D(a), false),
                        });
                        let expect = m.al(a).owners == 1;
                        compare(&exp, &delta(&s), hc, true, &what, cx);
                        r.hs.insert(i, nh);
                        if ok != expect {
                            cx.fail(VERDICT | UNWRAP, "uniqueness-verdict", format!("{}: sole ownership of the trait object granted={} but the model has {} owning handles", what, ok, m.al(a).owners));
                            return false;
                        }
                        if ok {
                            m.hs[i].k = K::Xd;
                        }
                        true
                    }
                    TryUnique | TryFromU => {
                        let h = r.hs.remove(i);
                        let H::A(x) = h else { unreachable!() };
                        let before = x.heap_ptr() as usize;
                        let (nh, ok) = cap(|| {
                            let res = if hop == TryUnique { Arc::try_unique(x) } else { <UniqueArc<P> as TryFrom<Arc<P>>>::try_from(x) };
                            match res {
                                Ok(u) => (H::X(u), true),
                                Err(a) => (H::A(a), false),
                            }
                        });
                        let expect = m.al(a).owners == 1;
                        compare(&exp, &delta(&s), hc, true, &what, cx);
                        let after = match &nh {
                            H::X(u) => (&**u) as *const P as usize - doff,
                            H::A(a) => a.heap_ptr() as usize,
                            _ => 0,
                        };
                        r.hs.insert(i, nh);
                        if ok != expect {
                            cx.fail(VERDICT | UNWRAP, "uniqueness-verdict", format!("{}: sole ownership granted={} but the model has {} owning handles", what, ok, m.al(a).owners));
                            return false;
                        }
                        if before != after {
                            cx.fail(VERDICT | UNWRAP, "handle-changed", format!("{}: handle returned points to {:#x}, went in pointing to {:#x}", what, after, before));
                        }
                        if ok {
                            m.hs[i].k = K::X;
                        }
                        true
                    }
                    TryUnwrap | UnwrapOrClone | IntoInner => {
                        let h = r.hs.remove(i);
                        m.hs.remove(i);
                        let owners = m.al(a).owners;
                        let old = m.al(a).clone();
                        let newid = track::next_id_peek();
                        // phase 1: the call itself
                        enum Out {
                            Val(P),
                            Back(Arc<P>),
                        }
                        let out = cap(|| match (h, hop) {
                            (H::A(x), TryUnwrap) => match Arc::try_unwrap(x) {
                                Ok(v) => Out::Val(v),
                                Err(a) => Out::Back(a),
                            },
                            (H::A(x), UnwrapOrClone) => Out::Val(Arc::unwrap_or_clone(x)),
                            (H::X(x), IntoInner) => Out::Val(UniqueArc::into_inner(x)),
                            _ => unreachable!(),
                        });
                        let sole = owners == 1;
                        let mut expect_id = old.id;
                        if sole {
                            // value moves out: memory released, destructor NOT run
                            exp.events.push(ExpEv::Dealloc { addr: old.block, size: il.size(), align: il.align() });
                            m.slots[a] = None;
                        } else if hop == UnwrapOrClone {
                            exp.clones.push((1, old.id, newid));
                            m.release(a, &mut exp);
                            expect_id = newid;
                        }
                        compare(&exp, &delta(&s), hc, true, &what, cx);
                        match out {
                            Out::Val(v) => {
                                if !sole && hop == TryUnwrap {
                                    cx.fail(UNWRAP | VERDICT, "uniqueness-verdict", format!("{}: value moved out although the model has {} owning handles", what, owners));
                                    std::mem::forget(v);
                                    return false;
                                }
                                let pk = v.peek();
                                if !pk.intact() || pk.id != expect_id || pk.val != old.val {
                                    cx.fail(UNWRAP | LIFETIME, "unwrapped-value", format!("{}: value handed out is {} (id {}, val {}), expected intact id {} val {}", what, pk.describe(), pk.id, pk.val, expect_id, old.val));
                                }
                                // phase 2: the caller drops the value it received
                                let s2 = snap();
                                cap(|| drop(v));
                                let mut e2 = Exp::default();
                                e2.drops.push((1, expect_id));
                                compare(&e2, &delta(&s2), hc, true, &format!("{} (dropping the received value)", what), cx);
                                true
                            }
                            Out::Back(arc) => {
                                if sole {
                                    cx.fail(UNWRAP | VERDICT, "uniqueness-verdict", format!("{}: declined although the handle is the sole owner", what));
                                    std::mem::forget(arc);
                                    return false;
                                }
                                if arc.heap_ptr() as usize != old.block {
                                    cx.fail(UNWRAP, "handle-changed", format!("{}: Err carries a handle to {:#x}, expected {:#x}", what, arc.heap_ptr() as usize, old.block));
                                }
                                r.hs.insert(i, H::A(arc));
                                m.hs.insert(i, MH { k: K::A, a });
                                true
                            }
                        }
                    }
                }
            }
        }
}


fn read_handle(h: &H) -> Peek {
    match h {
        H::A(a) => a.peek(),
        H::O(o) => o.peek(),
        H::U1(u) => match u.borrow() {
            ArcUnionBorrow::First(b) => b.peek(),
            ArcUnionBorrow::Second(_) => Peek { magic: 0, id: 0, val: 0 },
        },
        H::U2(u) => match u.borrow() {
            ArcUnionBorrow::Second(b) => b.peek(),
            ArcUnionBorrow::First(_) => Peek { magic: 0, id: 0, val: 0 },
        },
        H::X(x) => x.peek(),
        H::R(r) => unsafe { (**r).peek() },
        H::E(e) => e.slice.peek(),
        H::D(d) => d.pk(),
        H::Rd(r) => unsafe { (**r).pk() },
        H::W(w) => unsafe { (**w).peek() },
        H::Xd(x) => x.pk(),
    }
}

fn kind_of(h: &H) -> K {
    match h {
        H::A(_) => K::A,
        H::O(_) => K::O,
        H::U1(_) => K::U1,
        H::U2(_) => K::U2,
        H::X(_) => K::X,
        H::R(_) => K::R,
        H::E(_) => K::E,
        H::D(_) => K::D,
        H::Rd(_) => K::Rd,
        H::W(_) => K::W,
        H::Xd(_) => K::Xd,
    }
}

/// release one real handle (raw kinds are taken back first)
fn release_real(h: H) {
    match h {
        H::R(r) => drop(unsafe { Arc::from_raw(r) }),
        H::Rd(r) => drop(unsafe { Arc::<dyn Probe>::from_raw(r) }),
        H::W(w) => drop(unsafe { Arc::from_raw(w as *const P) }),
        other => drop(other),
    }
}

impl Universe for US {
    type Real = Real;
    type Model = Model;
    type Op = Op;
    const NAME: &'static str = UNAME;

    fn new() -> (Real, Model) {
        (Real { hs: Vec::with_capacity(16), blocks: Vec::with_capacity(16) }, Model { slots: [None, None, None], hs: Vec::with_capacity(16) })
    }

    fn enabled(m: &Model, b: &Bounds) -> Vec<Op> {
        let mut v = vec![];
        let live = m.slots.iter().filter(|s| s.is_some()).count();
        if m.hs.len() < b.max_handles && live < b.max_allocs.min(3) {
            for c in ALL_CTORS {
                v.push(Op::New(*c));
            }
        }
        for (i, h) in m.hs.iter().enumerate() {
            if m.hs[..i].iter().any(|g| g.k == h.k && g.a == h.a) {
                continue; // bit-identical handle already covered
            }
            for op in ALL_HOPS {
                if !applicable(h.k, *op) {
                    continue;
                }
                if adds_handle(*op) && m.hs.len() >= b.max_handles {
                    continue;
                }
                if may_allocate(*op) && m.al(h.a).owners > 1 && (live >= b.max_allocs.min(3)) {
                    continue;
                }
                if matches!(op, HOp::MakeMutPanic | HOp::MakeUniquePanic | HOp::OffMakeMutPanic | HOp::UnwrapOrClonePanic) && m.al(h.a).owners < 2 {
                    continue;
                }
                v.push(Op::H(i as u8, *op));
            }
        }
        v
    }

    fn step(r: &mut Real, m: &mut Model, op: &Op, cx: &mut Ctx) -> bool {
        let ok = step_inner(r, m, op, cx);
        r.register();
        ok
    }

    fn observe(r: &Real, m: &Model, model_ok: bool, cx: &mut Ctx) {
        r.invariant(cx);
        if !model_ok {
            return;
        }
        let rm0 = rmwlog::len();
        let s = snap();
        if r.hs.len() != m.hs.len() {
            cx.fail(0, "machinery:handle-count", "real and model handle lists differ in length".into());
            return;
        }
        for (i, (h, mh)) in r.hs.iter().zip(m.hs.iter()).enumerate() {
            let al = m.al(mh.a);
            let tag = format!("handle#{} {:?}", i, mh.k);
            // payload through the handle
            let pk = read_handle(h);
            if !pk.intact() || pk.id != al.id {
                cx.fail(LIFETIME, "read-not-intact", format!("{}: read {} payload (id {}), expected intact id {}", tag, pk.describe(), pk.id, al.id));
            } else if pk.val != al.val {
                cx.fail(LIFETIME | COW | VERDICT, "read-wrong-value", format!("{}: read value {}, model says {}", tag, pk.val, al.val));
            }
            let own = al.owners as usize;
            let mut counts: Vec<(&'static str, usize)> = vec![];
            let mut addrs: Vec<(&'static str, usize, usize)> = vec![]; // (what, got, expected)
            let mut uniq: Vec<(&'static str, bool)> = vec![];
            match h {
                H::A(x) => {
                    counts.push(("Arc::count", Arc::count(x)));
                    counts.push(("Arc::strong_count", Arc::strong_count(x)));
                    let b = x.borrow_arc();
                    counts.push(("ArcBorrow::strong_count", ArcBorrow::strong_count(&b)));
                    counts.push(("ArcBorrow::with_arc(count)", b.with_arc(|t| Arc::count(t))));
                    x.with_raw_offset_arc(|o| {
                        counts.push(("with_raw_offset_arc(strong_count)", OffsetArc::strong_count(o)));
                        addrs.push(("with_raw_offset_arc deref", &**o as *const P as usize, al.data));
                    });
                    addrs.push(("Arc::as_ptr", x.as_ptr() as usize, al.data));
                    addrs.push(("Arc Deref", &**x as *const P as usize, al.data));
                    addrs.push(("Arc::heap_ptr", x.heap_ptr() as usize, al.block));
                    addrs.push(("ArcBorrow::get", b.get() as *const P as usize, al.data));
                    addrs.push(("ArcBorrow bits", unsafe { std::mem::transmute_copy::<ArcBorrow<P>, usize>(&b) }, al.data));
                    b.with_arc(|t| addrs.push(("ArcBorrow::with_arc heap_ptr", t.heap_ptr() as usize, al.block)));
                    uniq.push(("Arc::is_unique", x.is_unique()));
                }
                H::O(x) => {
                    counts.push(("OffsetArc::strong_count", OffsetArc::strong_count(x)));
                    counts.push(("OffsetArc::with_arc(count)", x.with_arc(|t| Arc::count(t))));
                    let b = x.borrow_arc();
                    counts.push(("OffsetArc::borrow_arc strong_count", ArcBorrow::strong_count(&b)));
                    addrs.push(("OffsetArc Deref", &**x as *const P as usize, al.data));
                    addrs.push(("OffsetArc bits", unsafe { std::mem::transmute_copy::<OffsetArc<P>, usize>(x) }, al.data));
                    x.with_arc(|t| {
                        addrs.push(("OffsetArc::with_arc heap_ptr", t.heap_ptr() as usize, al.block));
                        uniq.push(("OffsetArc::with_arc(is_unique)", t.is_unique()));
                    });
                }
                H::U1(x) => {
                    counts.push(("ArcUnion::strong_count", ArcUnion::strong_count(x)));
                    let b = x.borrow();
                    counts.push(("ArcUnionBorrow::strong_count", ArcUnionBorrow::strong_count(&b)));
                    if !x.is_first() || x.is_second() || x.as_first().is_none() || x.as_second().is_some() || !matches!(b, ArcUnionBorrow::First(_)) {
                        cx.fail(UNION, "union-variant", format!("{}: a union built with from_first does not report First through every accessor", tag));
                    }
                    if let Some(f) = x.as_first() {
                        addrs.push(("ArcUnion::as_first get", f.get() as *const P as usize, al.data));
                        counts.push(("as_first strong_count", ArcBorrow::strong_count(&f)));
                    }
                }
                H::U2(x) => {
                    counts.push(("ArcUnion::strong_count", ArcUnion::strong_count(x)));
                    let b = x.borrow();
                    counts.push(("ArcUnionBorrow::strong_count", ArcUnionBorrow::strong_count(&b)));
                    if x.is_first() || !x.is_second() || x.as_first().is_some() || x.as_second().is_none() || !matches!(b, ArcUnionBorrow::Second(_)) {
                        cx.fail(UNION, "union-variant", format!("{}: a union built with from_second does not report Second through every accessor", tag));
                    }
                    if let Some(f) = x.as_second() {
                        addrs.push(("ArcUnion::as_second get", f.get() as *const P as usize, al.data));
                        counts.push(("as_second strong_count", ArcBorrow::strong_count(&f)));
                    }
                }
                H::X(x) => {
                    addrs.push(("UniqueArc Deref", &**x as *const P as usize, al.data));
                    if own != 1 {
                        cx.fail(VERDICT, "unique-shared", format!("{}: a UniqueArc exists while the model has {} owners", tag, own));
                    }
                }
                H::Xd(x) => {
                    addrs.push(("UniqueArc<dyn> Deref", &**x as *const dyn Probe as *const () as usize, al.data));
                    if own != 1 {
                        cx.fail(VERDICT, "unique-shared", format!("{}: a UniqueArc<dyn> exists while the model has {} owners", tag, own));
                    }
                }
                H::R(p) => {
                    addrs.push(("raw pointer from into_raw", *p as usize, al.data));
                    let b = unsafe { ArcBorrow::from_ptr(*p) };
                    counts.push(("ArcBorrow::from_ptr strong_count", ArcBorrow::strong_count(&b)));
                }
                H::E(x) => {
                    counts.push(("Arc<HeaderSlice<(),T>>::count", Arc::count(x)));
                    addrs.push(("erased heap_ptr", x.heap_ptr() as usize, al.block));
                    addrs.push(("erased slice addr", &x.slice as *const P as usize, al.data));
                    uniq.push(("erased is_unique", x.is_unique()));
                }
                H::D(x) => {
                    counts.push(("Arc<dyn>::count", Arc::count(x)));
                    counts.push(("Arc<dyn>::strong_count", Arc::strong_count(x)));
                    addrs.push(("Arc<dyn>::as_ptr", x.as_ptr() as *const () as usize, al.data));
                    addrs.push(("Arc<dyn>::heap_ptr", x.heap_ptr() as usize, al.block));
                    uniq.push(("Arc<dyn>::is_unique", x.is_unique()));
                }
                H::Rd(p) => {
                    addrs.push(("raw dyn pointer", *p as *const () as usize, al.data));
                }
                H::W(p) => {
                    addrs.push(("RefCnt::into_ptr pointer", *p as usize, al.data));
                    #[cfg(feature = "cfg_all")]
                    {
                        let b = unsafe { ArcBorrow::from_ptr(*p as *const P) };
                        counts.push(("ArcBorrow::from_ptr strong_count", ArcBorrow::strong_count(&b)));
                    }
                }
            }
            #[cfg(feature = "cfg_all")]
            if let H::A(x) = h {
                addrs.push(("RefCnt::as_ptr", <Arc<P> as arc_swap::RefCnt>::as_ptr(x) as usize, al.data));
            }
            for (w, c) in counts {
                if c != own {
                    cx.fail(COUNT, "count-accessor", format!("{}: {} reports {}, the model has {} owning handles", tag, w, c, own));
                }
            }
            for (w, g, e) in addrs {
                if g != e {
                    cx.fail(ADDRESS, "address", format!("{}: {} = {:#x}, expected {:#x}", tag, w, g, e));
                }
            }
            for (w, u) in uniq {
                if u != (own == 1) {
                    cx.fail(VERDICT, "is-unique", format!("{}: {} = {} with {} owning handles", tag, w, u, own));
                }
            }
        }
        // pairwise: identity and comparison see through the pointer, and touch no count
        for i in 0..r.hs.len() {
            for j in (i + 1)..r.hs.len() {
                let same = m.hs[i].a == m.hs[j].a;
                let veq = m.al(m.hs[i].a).val == m.al(m.hs[j].a).val;
                match (&r.hs[i], &r.hs[j]) {
                    (H::A(x), H::A(y)) => {
                        if Arc::ptr_eq(x, y) != same {
                            cx.fail(ADDRESS, "ptr-eq", format!("Arc::ptr_eq(#{}, #{}) = {} but same allocation = {}", i, j, !same, same));
                        }
                        let _ = (x == y, x < y, x.cmp(y));
                        if (x == y) != veq {
                            cx.fail(0, "eq", "Arc == disagrees with values".into());
                        }
                    }
                    (H::O(x), H::O(y)) => {
                        let _ = x == y;
                    }
                    (H::U1(x), H::U1(y)) => {
                        if ArcUnion::ptr_eq(x, y) != same {
                            cx.fail(UNION | ADDRESS, "ptr-eq", format!("ArcUnion::ptr_eq(#{}, #{}) wrong", i, j));
                        }
                    }
                    _ => {}
                }
            }
        }
        let d = delta(&s);
        let writes: Vec<_> = d.atom.iter().filter(|a| a.is_rmw()).collect();
        if !writes.is_empty() {
            cx.fail(COUNT, "borrow-touches-count", format!("reading, borrowing, counting and comparing wrote to a reference count: {:?}", writes.iter().map(|g| (g.addr, g.kind, g.arg)).collect::<Vec<_>>()));
        }
        if !d.drops.is_empty() || !d.clones.is_empty() {
            cx.fail(LIFETIME, "borrow-drops", format!("reading/borrowing ran destructors {:?} / clones {:?}", d.drops, d.clones));
        }
        for p in &d.perr {
            cx.fail(LIFETIME, "payload-error", p.clone());
        }
        let _ = rm0;
    }

    fn finish(mut r: Real, mut m: Model, reverse: bool, cx: &mut Ctx) {
        let total_ids = track::next_id_peek() - 1;
        while !r.hs.is_empty() {
            let i = if reverse { r.hs.len() - 1 } else { 0 };
            let h = r.hs.remove(i);
            let mh = m.hs.remove(i);
            let s = snap();
            cap(|| release_real(h));
            let mut exp = Exp::default();
            m.release(mh.a, &mut exp);
            compare(&exp, &delta(&s), LIFETIME, false, &format!("closing: release {:?} handle", mh.k), cx);
        }
        r.invariant(cx);
        let live = vrt::arena::live_blocks();
        if !live.is_empty() {
            cx.fail(LIFETIME, "leak", format!("after every handle was released {} block(s) are still allocated: {:?}", live.len(), live));
        }
        let mut all = track::drops_since(0);
        all.sort();
        let want: Vec<(u8, u32)> = (1..=total_ids).map(|i| (1u8, i)).collect();
        if all != want {
            cx.fail(LIFETIME, "drops-total", format!("over the whole history every value must be destroyed exactly once: expected ids 1..={}, destructor log {:?}", total_ids, all));
        }
        for b in vrt::arena::check_redzones() {
            cx.fail(LAYOUT, "redzone", format!("write outside block {:#x}", b));
        }
    }

    fn abandon(mut r: Real, cx: &mut Ctx) {
        while let Some(h) = r.hs.pop() {
            cap(|| release_real(h));
        }
        r.invariant(cx);
        for e in vrt::arena::errors_since(0) {
            if e.kind == vrt::arena::ErrKind::DoubleFree {
                cx.fail(LIFETIME, "double-free", format!("{:?}", e));
            }
        }
    }

    fn key(m: &Model) -> Vec<u8> {
        let mut best: Option<Vec<u8>> = None;
        for perm in [[0usize, 1, 2], [0, 2, 1], [1, 0, 2], [1, 2, 0], [2, 0, 1], [2, 1, 0]] {
            let mut k = vec![];
            for &s in &perm {
                match &m.slots[s] {
                    None => k.push(255),
                    Some(a) => k.push(a.val as u8),
                }
            }
            let mut hs: Vec<(u8, u8)> = m.hs.iter().map(|h| (perm.iter().position(|&p| p == h.a).unwrap() as u8, h.k as u8)).collect();
            hs.sort();
            for (a, b) in hs {
                k.push(a);
                k.push(b);
            }
            if best.as_ref().map_or(true, |b| k < *b) {
                best = Some(k);
            }
        }
        best.unwrap()
    }

    fn op_str(op: &Op) -> String {
        match op {
            Op::New(c) => format!("New.{:?}", c),
            Op::H(i, h) => format!("{:?}@{}", h, i),
        }
    }
    fn op_name(op: &Op) -> String {
        match op {
            Op::New(c) => format!("New.{:?}", c),
            Op::H(_, h) => format!("{:?}", h),
        }
    }
    fn op_parse(s: &str) -> Option<Op> {
        if let Some(c) = s.strip_prefix("New.") {
            return ALL_CTORS.iter().find(|x| format!("{:?}", x) == c).map(|c| Op::New(*c));
        }
        let (h, i) = s.split_once('@')?;
        let i: u8 = i.parse().ok()?;
        ALL_HOPS.iter().find(|x| format!("{:?}", x) == h).map(|h| Op::H(i, *h))
    }
}
