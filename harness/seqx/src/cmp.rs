//! Step-level comparison of what the real crate did with what the model expects.
use crate::engine::*;
use triomphe::verif_hook::Rmw;
use vrt::arena::{self, AllocError, ErrKind, EvKind, Event};
use vrt::rmwlog::{self, AKind, AOp};
use vrt::track;

pub struct Snap {
    drops: usize,
    clones: usize,
    events: usize,
    errors: usize,
    perr: usize,
    rmw: usize,
}
pub fn snap() -> Snap {
    Snap { drops: track::n_drops(), clones: track::n_clones(), events: arena::n_events(), errors: arena::n_errors(), perr: track::n_perr(), rmw: rmwlog::len() }
}
pub struct Delta {
    pub drops: Vec<(u8, u32)>,
    pub clones: Vec<(u8, u32, u32)>,
    pub events: Vec<Event>,
    pub aerrs: Vec<AllocError>,
    pub perr: Vec<String>,
    pub atom: Vec<AOp>,
}
pub fn delta(s: &Snap) -> Delta {
    Delta {
        drops: track::drops_since(s.drops),
        clones: track::clones_since(s.clones),
        events: arena::events_since(s.events),
        aerrs: arena::errors_since(s.errors),
        perr: track::perr_since(s.perr),
        atom: rmwlog::since(s.rmw),
    }
}

#[derive(Clone, Debug, PartialEq)]
pub enum ExpEv {
    Alloc { size: usize, align: usize },
    Dealloc { addr: usize, size: usize, align: usize },
    /// a dealloc of the block most recently allocated *within this step* with that layout
    DeallocOfStepAlloc { nth: usize },
}

#[derive(Default, Clone, Debug)]
pub struct Exp {
    /// (block start, block size, kind, operand): RMWs on the counter living in that block
    pub rmw: Vec<(usize, usize, Rmw, usize)>,
    /// indices into `rmw` that the implementation may legitimately skip: the decrement of a release
    /// that destroys the value (nobody can observe the count afterwards)
    pub rmw_optional: Vec<usize>,
    pub drops: Vec<(u8, u32)>,
    pub clones: Vec<(u8, u32, u32)>,
    pub events: Vec<ExpEv>,
}

/// Compare; returns the addresses of blocks allocated in this step (in order).
/// `sem`: the operation's effect depends on a semantic decision (uniqueness verdict, copy-on-write
/// branch, unwrap): differences in what it destroyed/allocated are charged to its home class only
/// and derail the model; for pure ownership operations they are lifetime violations.
pub fn compare(exp: &Exp, d: &Delta, home: u32, sem: bool, what: &str, cx: &mut Ctx) -> Vec<usize> {
    let lc = if sem { home } else { LIFETIME | home };
    // --- reference-count traffic
    // Writes to the count word of a block that this very step returns to the allocator are not
    // observable through any handle (there is none left): whether the last release goes through
    // 1 -> 0 by fetch_sub, by compare_exchange, or not at all is the implementation's business.
    let freed: Vec<(usize, usize)> = d.events.iter().filter(|e| e.kind == EvKind::Dealloc).map(|e| (e.addr, e.size)).collect();
    let in_freed = |addr: usize| freed.iter().any(|(a, sz)| addr >= *a && addr < *a + (*sz).max(1));
    let got: Vec<&AOp> = d.atom.iter().filter(|a| a.is_rmw() && !in_freed(a.addr)).collect();
    let exp_rmw: Vec<(usize, usize, Rmw, usize)> = exp.rmw.iter().filter(|e| !in_freed(e.0)).cloned().collect();
    let hit = |g: &&AOp, e: &(usize, usize, Rmw, usize)| -> bool {
        let inside = g.addr >= e.0 && g.addr < e.0 + e.1.max(1);
        let want_delta = match e.2 {
            Rmw::Add => e.3 as isize,
            Rmw::Sub => -(e.3 as isize),
            _ => return false,
        };
        inside && g.delta() == want_delta
    };
    // Every observed change must be one the model expects, in order. An expected change that was
    // not observed through the hooks is not charged here: the value the count ends up with is
    // compared after every step anyway (COUNT), and a write the shim cannot see (get_mut, as_ptr)
    // is not by itself a change of behaviour.
    let matches = |want: &[(usize, usize, Rmw, usize)]| -> bool {
        let mut wi = 0;
        got.iter().all(|g| {
            while wi < want.len() {
                let e = &want[wi];
                wi += 1;
                if hit(g, e) {
                    return true;
                }
            }
            false
        })
    };
    let mut ok = matches(&exp_rmw);
    if !ok && !exp.rmw_optional.is_empty() {
        let reduced: Vec<_> = exp.rmw.iter().enumerate().filter(|(i, e)| !exp.rmw_optional.contains(i) && !in_freed(e.0)).map(|(_, e)| *e).collect();
        ok = matches(&reduced);
    }
    if !ok {
        let f = if sem { Ctx::fail_derail } else { Ctx::fail };
        f(cx, if sem { home } else { COUNT | (home & (THIN | COW | UNWRAP)) }, "rmw-traffic", format!("{}: counter writes differ: expected {:?} (block,size,kind,operand), got {:?}", what, exp_rmw, got.iter().map(|g| (g.addr, g.kind, g.old, g.new)).collect::<Vec<_>>()));
    }
    // --- destructors
    let mut a = d.drops.clone();
    a.sort();
    let mut b = exp.drops.clone();
    b.sort();
    if a != b {
        let early: Vec<_> = a.iter().filter(|x| !b.contains(x)).collect();
        let code = if !early.is_empty() { "drops-unexpected" } else { "drops-missing" };
        cx.fail_derail(lc, code, format!("{}: destructor log differs: expected (tag,id) {:?}, got {:?}", what, b, a));
    }
    // --- clones
    if d.clones != exp.clones {
        cx.fail_derail(lc, "clone-calls", format!("{}: Clone calls differ: expected (tag,src,new) {:?}, got {:?}", what, exp.clones, d.clones));
    }
    // --- allocator traffic
    // One attempt = match the observed events against the expected ones, collecting layout remarks.
    let attempt = |evs: &[&Event]| -> (bool, Vec<usize>, Vec<(&'static str, String)>) {
        let mut new_blocks = vec![];
        let mut remarks = vec![];
        let mut ok = evs.len() == exp.events.len();
        if ok {
            for (g, e) in evs.iter().zip(exp.events.iter()) {
                match (g.kind, e) {
                    (EvKind::Alloc, ExpEv::Alloc { size, align }) => {
                        new_blocks.push(g.addr);
                        if g.size != *size || g.align != *align {
                            remarks.push(("alloc-layout", format!("{}: allocation requested with (size {}, align {}), independent layout computation gives ({}, {})", what, g.size, g.align, size, align)));
                        }
                    }
                    (EvKind::Dealloc, ExpEv::Dealloc { addr, size, align }) => {
                        if g.addr != *addr {
                            ok = false;
                        } else if g.size != *size || g.align != *align {
                            remarks.push(("dealloc-layout", format!("{}: block {:#x} returned with (size {}, align {}), was requested with ({}, {})", what, addr, g.size, g.align, size, align)));
                        }
                    }
                    (EvKind::Dealloc, ExpEv::DeallocOfStepAlloc { nth }) => {
                        if new_blocks.get(*nth) != Some(&g.addr) {
                            ok = false;
                        }
                    }
                    _ => ok = false,
                }
            }
        }
        (ok, new_blocks, remarks)
    };
    let evs: Vec<&Event> = d.events.iter().collect();
    let (mut structural_ok, mut new_blocks, mut remarks) = attempt(&evs);
    if !structural_ok {
        // Scratch memory is the implementation's business: a block that is both requested and
        // returned (with the layout it was requested with) inside this one step, and that the model
        // does not expect to see, is left out and the rest is compared again.
        let mut transient: Vec<usize> = vec![];
        for (i, a) in evs.iter().enumerate() {
            if a.kind == EvKind::Alloc {
                if let Some(f) = evs[i + 1..].iter().find(|f| f.kind == EvKind::Dealloc && f.addr == a.addr) {
                    if f.size == a.size && f.align == a.align {
                        transient.push(a.addr);
                    }
                }
            }
        }
        // try leaving out every subset of the transient blocks, smallest first (there are at most a few)
        let n = transient.len().min(4);
        let mut masks: Vec<u32> = (1..(1u32 << n)).collect();
        masks.sort_by_key(|m| m.count_ones());
        for m in masks {
            let skip: Vec<usize> = (0..n).filter(|i| m & (1 << i) != 0).map(|i| transient[i]).collect();
            let filtered: Vec<&Event> = evs.iter().filter(|e| !skip.contains(&e.addr)).cloned().collect();
            let (ok2, nb2, rm2) = attempt(&filtered);
            if ok2 {
                structural_ok = true;
                new_blocks = nb2;
                remarks = rm2;
                break;
            }
        }
    }
    if structural_ok {
        for (code, msg) in remarks {
            cx.fail(LAYOUT, code, msg);
        }
    }
    if !structural_ok {
        let extra_free = d.events.iter().filter(|e| e.kind == EvKind::Dealloc).count() > exp.events.iter().filter(|e| !matches!(e, ExpEv::Alloc { .. })).count();
        let code = if extra_free { "events-extra-free" } else { "events-differ" };
        cx.fail_derail(lc, code, format!("{}: allocator traffic differs: expected {:?}, got {:?}", what, exp.events, d.events.iter().map(|e| (e.kind, e.addr, e.size, e.align)).collect::<Vec<_>>()));
    }
    for e in &d.aerrs {
        let (c, code) = match e.kind {
            ErrKind::DoubleFree => (LIFETIME | home, "double-free"),
            ErrKind::LayoutMismatch => (LAYOUT, "free-layout-mismatch"),
            ErrKind::NotABlock => (LIFETIME | ADDRESS | UNION | home, "free-not-a-block"),
            ErrKind::RedZone => (LAYOUT, "redzone"),
            ErrKind::Overflowed => (0, "machinery:arena-log-overflow"),
        };
        cx.fail(c, code, format!("{}: allocator error {:?}", what, e));
    }
    for p in &d.perr {
        cx.fail(LIFETIME | home, "payload-error", format!("{}: {}", what, p));
    }
    new_blocks
}
