//! Universe L: unsized payloads — `Arc<[Tracked<5>]>` and `Arc<str>` with their erased-header,
//! raw-pointer and unique forms (DESIGN §2.4).
use crate::cmp::*;
use crate::engine::*;
use std::alloc::Layout;
use std::mem::MaybeUninit;
use triomphe::verif_hook::Rmw;
use triomphe::{Arc, HeaderSlice, UniqueArc};
use vrt::arena::cap;
use vrt::track::{self, Tracked};

pub type EE = Tracked<5>;
const TEXTS: [&str; 2] = ["", "h\u{e9}llo \u{6f22}"];

#[derive(Clone, Copy, PartialEq, Eq, PartialOrd, Ord, Debug, Hash)]
pub enum K {
    A,
    E,
    R,
    X,
    S,
    Se,
    Sr,
}
pub enum H {
    A(Arc<[EE]>),
    E(Arc<HeaderSlice<(), [EE]>>),
    R(*const [EE]),
    X(UniqueArc<[EE]>),
    S(Arc<str>),
    Se(Arc<HeaderSlice<(), str>>),
    Sr(*const str),
}
fn kind_of(h: &H) -> K {
    match h {
        H::A(_) => K::A,
        H::E(_) => K::E,
        H::R(_) => K::R,
        H::X(_) => K::X,
        H::S(_) => K::S,
        H::Se(_) => K::Se,
        H::Sr(_) => K::Sr,
    }
}

#[derive(Clone, Debug, PartialEq)]
pub enum Ty {
    Slice(Vec<u32>), // element ids
    Str(usize),      // index into TEXTS
}
#[derive(Clone, Debug)]
pub struct MA {
    pub ty: Ty,
    pub val: u32,
    pub owners: u32,
    pub block: usize,
}
impl MA {
    fn layout(&self) -> (Layout, usize) {
        let inner = match &self.ty {
            Ty::Slice(ids) => Layout::array::<EE>(ids.len()).unwrap(),
            Ty::Str(i) => Layout::array::<u8>(TEXTS[*i].len()).unwrap(),
        };
        let (l, off) = Layout::new::<usize>().extend(inner).unwrap();
        (l.pad_to_align(), off)
    }
}
#[derive(Clone, Debug)]
pub struct MH {
    pub k: K,
    pub a: usize,
}
#[derive(Clone, Debug)]
pub struct Model {
    pub slots: [Option<MA>; 3],
    pub hs: Vec<MH>,
}
pub struct Real {
    pub hs: Vec<H>,
    pub blocks: Vec<(usize, Vec<u32>)>,
}

#[derive(Clone, Copy, Debug, PartialEq, Eq)]
pub enum Ctor {
    FromVec,
    FromVecSlack,
    IterExact,
    IterInexact,
    UniqueIter,
    UninitSlice,
    StrFromStr,
    StrFromString,
    HeaderAndStr,
}
const SLICE_CTORS: &[Ctor] = &[Ctor::FromVec, Ctor::FromVecSlack, Ctor::IterExact, Ctor::IterInexact, Ctor::UniqueIter, Ctor::UninitSlice];
const STR_CTORS: &[Ctor] = &[Ctor::StrFromStr, Ctor::StrFromString, Ctor::HeaderAndStr];

#[derive(Clone, Copy, Debug, PartialEq, Eq)]
pub enum HOp {
    Clone,
    Drop,
    Erase,
    Unerase,
    IntoRaw,
    FromRaw,
    FromRawSlice,
    TryUnique,
    TryFromU,
    Shareable,
    GetMutW,
    GetUniqueW,
    DerefMutW,
    BorrowedCount, // Arc<[T]> has no borrow_arc (unsized); placeholder for symmetry, never enabled
}
const ALL_HOPS: &[HOp] = &[HOp::Clone, HOp::Drop, HOp::Erase, HOp::Unerase, HOp::IntoRaw, HOp::FromRaw, HOp::FromRawSlice, HOp::TryUnique, HOp::TryFromU, HOp::Shareable, HOp::GetMutW, HOp::GetUniqueW, HOp::DerefMutW];

#[derive(Clone, Copy, Debug, PartialEq, Eq)]
pub enum Op {
    New(Ctor, u8),
    H(u8, HOp),
}

fn applicable(k: K, op: HOp) -> bool {
    use HOp::*;
    match op {
        Clone => matches!(k, K::A | K::E | K::S | K::Se),
        Drop => matches!(k, K::A | K::E | K::S | K::Se | K::X),
        Erase | IntoRaw => matches!(k, K::A | K::S),
        Unerase => matches!(k, K::E | K::Se),
        FromRaw => matches!(k, K::R | K::Sr),
        FromRawSlice => k == K::R,
        TryUnique | TryFromU | GetUniqueW => k == K::A,
        GetMutW => matches!(k, K::A | K::E),
        Shareable | DerefMutW => k == K::X,
        BorrowedCount => false,
    }
}

impl Model {
    fn free_slot(&self) -> Option<usize> {
        self.slots.iter().position(|s| s.is_none())
    }
    fn al(&self, a: usize) -> &MA {
        self.slots[a].as_ref().expect("model: handle to dead slot")
    }
    fn al_mut(&mut self, a: usize) -> &mut MA {
        self.slots[a].as_mut().expect("model: handle to dead slot")
    }
    fn release(&mut self, a: usize, e: &mut Exp) {
        let al = self.al_mut(a);
        let (il, _) = al.layout();
        e.rmw.push((al.block, il.size(), Rmw::Sub, 1));
        al.owners -= 1;
        if al.owners == 0 {
            e.rmw_optional.push(e.rmw.len() - 1);
            if let Ty::Slice(ids) = &al.ty {
                for i in ids {
                    e.drops.push((5, *i));
                }
            }
            e.events.push(ExpEv::Dealloc { addr: al.block, size: il.size(), align: il.align() });
            self.slots[a] = None;
        }
    }
    fn addref(&mut self, a: usize, e: &mut Exp) {
        let al = self.al_mut(a);
        let (il, _) = al.layout();
        e.rmw.push((al.block, il.size(), Rmw::Add, 1));
        al.owners += 1;
    }
}

enum View<'a> {
    Slice(&'a [EE]),
    Str(&'a str),
}
fn view(h: &H) -> View<'_> {
    match h {
        H::A(a) => View::Slice(a),
        H::E(a) => View::Slice(&a.slice),
        H::R(p) => View::Slice(unsafe { &**p }),
        H::X(x) => View::Slice(x),
        H::S(a) => View::Str(a),
        H::Se(a) => View::Str(&a.slice),
        H::Sr(p) => View::Str(unsafe { &**p }),
    }
}
fn data_addr(h: &H) -> usize {
    match view(h) {
        View::Slice(s) => s.as_ptr() as usize,
        View::Str(s) => s.as_ptr() as usize,
    }
}
fn release_real(h: H) {
    match h {
        H::R(p) => drop(unsafe { Arc::from_raw_slice(p) }),
        H::Sr(p) => drop(unsafe { Arc::<str>::from_raw(p) }),
        other => drop(other),
    }
}

impl Real {
    fn block_of_handle(h: &H) -> Option<(usize, bool)> {
        // zero-length payloads sit at the end of the count word: look the address up one byte back
        let p = data_addr(h);
        vrt::arena::block_of(p).or_else(|| vrt::arena::block_of(p - 1)).map(|b| (b.0, b.3))
    }
    fn register(&mut self) {
        for h in &self.hs {
            if let Some((addr, live)) = Self::block_of_handle(h) {
                if live && !self.blocks.iter().any(|b| b.0 == addr) {
                    let ids = match view(h) {
                        View::Slice(s) => s.iter().map(|e| e.peek().id).collect(),
                        View::Str(_) => vec![],
                    };
                    self.blocks.push((addr, ids));
                }
            }
        }
    }
    fn invariant(&self, cx: &mut Ctx) {
        let drops = track::drops_since(0);
        let mut owners = vec![0usize; self.blocks.len()];
        for (i, h) in self.hs.iter().enumerate() {
            match Self::block_of_handle(h) {
                None => cx.fail(LIFETIME | ADDRESS, "handle-outside-heap", format!("handle#{} {:?} points to {:#x}, which is in no block obtained from the allocator", i, kind_of(h), data_addr(h))),
                Some((addr, live)) => {
                    if !live {
                        cx.fail(LIFETIME, "use-after-free", format!("handle#{} {:?} points into block {:#x}, which has been returned to the allocator", i, kind_of(h), addr));
                        continue;
                    }
                    if let View::Slice(s) = view(h) {
                        if s.len() <= 8 && s.iter().any(|e| !e.peek().intact()) {
                            cx.fail(LIFETIME, "handle-to-destroyed-value", format!("handle#{} {:?} reads a destroyed or unwritten element", i, kind_of(h)));
                        }
                    }
                    if let Some(k) = self.blocks.iter().position(|b| b.0 == addr) {
                        owners[k] += 1;
                    }
                }
            }
        }
        for (k, (block, ids)) in self.blocks.iter().enumerate() {
            let live = vrt::arena::block_of(*block).map(|b| b.3).unwrap_or(false);
            for id in ids {
                let nd = drops.iter().filter(|d| **d == (5u8, *id)).count();
                if owners[k] > 0 && nd > 0 {
                    cx.fail(LIFETIME, "destroyed-while-owned", format!("element id {} was destroyed {} time(s) while {} owning handle(s) still refer to its allocation", id, nd, owners[k]));
                }
                if owners[k] == 0 && nd != 1 {
                    cx.fail(LIFETIME, "destroyed-not-once", format!("element id {} has no owning handle left and its destructor ran {} times (must be exactly once)", id, nd));
                }
            }
            if owners[k] == 0 && live {
                cx.fail(LIFETIME, "leak", format!("block {:#x} is still allocated although no owning handle refers to it", block));
            }
        }
    }
}

struct Inexact<I>(I);
impl<I: Iterator> Iterator for Inexact<I> {
    type Item = I::Item;
    fn next(&mut self) -> Option<I::Item> {
        self.0.next()
    }
    fn size_hint(&self) -> (usize, Option<usize>) {
        (0, None)
    }
}

pub struct UL;

fn step_inner(r: &mut Real, m: &mut Model, op: &Op, cx: &mut Ctx) -> bool {
    let what = UL::op_str(op);
    match *op {
        Op::New(c, arg) => {
            let Some(slot) = m.free_slot() else { return false };
            let n = arg as usize;
            let first = track::next_id_peek();
            let is_str = STR_CTORS.contains(&c);
            let ty = if is_str { Ty::Str(n) } else { Ty::Slice((0..n as u32).map(|i| first + i).collect()) };
            let probe = MA { ty: ty.clone(), val: 0, owners: 1, block: 0 };
            let (il, _) = probe.layout();
            let s = snap();
            let elems = || (0..n).map(|_| EE::new(0));
            let (h, extra_events): (H, usize) = cap(|| match c {
                Ctor::FromVec => {
                    let mut v = vrt::arena::suspend(|| Vec::with_capacity(n));
                    v.extend(elems());
                    (H::A(Arc::from(v)), 0)
                }
                Ctor::FromVecSlack => {
                    let mut v = vrt::arena::suspend(|| Vec::with_capacity(n + 3));
                    v.extend(elems());
                    (H::A(Arc::from(v)), 0)
                }
                Ctor::IterExact => (H::A(elems().collect()), 0),
                Ctor::IterInexact => {
                    // the crate collects into a Vec first: its buffer is allocator traffic of the step
                    (H::A(Inexact(elems()).collect()), 1)
                }
                Ctor::UniqueIter => (H::X(elems().collect()), 0),
                Ctor::UninitSlice => {
                    let mut a = Arc::<[MaybeUninit<EE>]>::new_uninit_slice(n);
                    for s in Arc::get_mut(&mut a).unwrap().iter_mut() {
                        s.write(EE::new(0));
                    }
                    (H::A(unsafe { a.assume_init() }), 0)
                }
                Ctor::StrFromStr => (H::S(Arc::from(TEXTS[n])), 0),
                Ctor::StrFromString => {
                    let st = vrt::arena::suspend(|| String::from(TEXTS[n]));
                    let a = Arc::<str>::from(st);
                    (H::S(a), 0)
                }
                Ctor::HeaderAndStr => (H::Se(Arc::from_header_and_str((), TEXTS[n])), 0),
            });
            let fresh = match &h {
                H::A(x) => Arc::count(x),
                H::S(x) => Arc::count(x),
                H::Se(x) => Arc::count(x),
                _ => 1,
            };
            if fresh != 1 {
                cx.fail(COUNT | CTOR, "fresh-count", format!("{}: a freshly constructed value reports a count of {}", what, fresh));
            }
            let d = delta(&s);
            // allocator traffic: exactly one surviving block with the expected layout; a collecting
            // constructor may allocate and free scratch buffers
            let live_new: Vec<_> = d.events.iter().filter(|e| e.kind == vrt::arena::EvKind::Alloc && !d.events.iter().any(|f| f.kind == vrt::arena::EvKind::Dealloc && f.addr == e.addr)).collect();
            let _ = extra_events;
            if live_new.len() != 1 {
                cx.fail_derail(LIFETIME | CTOR, "events-differ", format!("{}: expected one surviving allocation, allocator traffic {:?}", what, d.events.iter().map(|e| (e.kind, e.addr, e.size, e.align)).collect::<Vec<_>>()));
                cap(|| release_real(h)); // nothing may leak into the next execution
                return false;
            }
            let b = live_new[0];
            if b.size != il.size() || b.align != il.align() {
                cx.fail(LAYOUT, "alloc-layout", format!("{}: allocation requested with (size {}, align {}), independent layout computation gives ({}, {})", what, b.size, b.align, il.size(), il.align()));
            }
            if !d.drops.is_empty() || !d.perr.is_empty() || !d.aerrs.is_empty() {
                cx.fail(LIFETIME | CTOR, "ctor-drops", format!("{}: construction ran destructors {:?} / errors {:?} {:?}", what, d.drops, d.perr, d.aerrs));
            }
            if d.atom.iter().any(|a| a.is_rmw()) {
                cx.fail(COUNT, "rmw-traffic", format!("{}: construction wrote to a reference count through the atomic API", what));
            }
            m.slots[slot] = Some(MA { ty, val: 0, owners: 1, block: b.addr });
            m.hs.push(MH { k: kind_of(&h), a: slot });
            r.hs.push(h);
            true
        }
        Op::H(i, hop) => {
            let i = i as usize;
            if i >= m.hs.len() || !applicable(m.hs[i].k, hop) || kind_of(&r.hs[i]) != m.hs[i].k {
                return false;
            }
            let a = m.hs[i].a;
            let s = snap();
            let mut exp = Exp::default();
            use HOp::*;
            match hop {
                Clone => {
                    let nh = cap(|| match &r.hs[i] {
                        H::A(x) => H::A(x.clone()),
                        H::E(x) => H::E(x.clone()),
                        H::S(x) => H::S(x.clone()),
                        H::Se(x) => H::Se(x.clone()),
                        _ => unreachable!(),
                    });
                    m.addref(a, &mut exp);
                    compare(&exp, &delta(&s), LIFETIME, false, &what, cx);
                    m.hs.push(MH { k: kind_of(&nh), a });
                    r.hs.push(nh);
                    true
                }
                Drop => {
                    let h = r.hs.remove(i);
                    m.hs.remove(i);
                    cap(|| drop(h));
                    m.release(a, &mut exp);
                    compare(&exp, &delta(&s), LIFETIME, false, &what, cx);
                    true
                }
                Erase | Unerase | IntoRaw | FromRaw | FromRawSlice | Shareable => {
                    let h = r.hs.remove(i);
                    let before = data_addr(&h);
                    let nh = cap(|| match (h, hop) {
                        (H::A(x), Erase) => H::E(x.into()),
                        (H::S(x), Erase) => H::Se(x.into()),
                        (H::E(x), Unerase) => H::A(x.into()),
                        (H::Se(x), Unerase) => H::S(x.into()),
                        (H::A(x), IntoRaw) => H::R(Arc::into_raw(x)),
                        (H::S(x), IntoRaw) => H::Sr(Arc::into_raw(x)),
                        (H::R(x), FromRaw) => H::A(unsafe { Arc::from_raw(x) }),
                        (H::R(x), FromRawSlice) => H::A(unsafe { Arc::from_raw_slice(x) }),
                        (H::Sr(x), FromRaw) => H::S(unsafe { Arc::from_raw(x) }),
                        (H::X(x), Shareable) => H::A(x.shareable()),
                        _ => unreachable!(),
                    });
                    compare(&exp, &delta(&s), LIFETIME | ADDRESS, false, &what, cx);
                    if data_addr(&nh) != before {
                        cx.fail_derail(ADDRESS, "conversion-moved", format!("{}: the value is at {:#x} after the conversion, {:#x} before", what, data_addr(&nh), before));
                    }
                    m.hs[i].k = kind_of(&nh);
                    r.hs.insert(i, nh);
                    true
                }
                TryUnique | TryFromU => {
                    let h = r.hs.remove(i);
                    let H::A(x) = h else { unreachable!() };
                    let (nh, ok) = cap(|| {
                        let res = if hop == TryUnique { Arc::try_unique(x) } else { <UniqueArc<[EE]> as TryFrom<Arc<[EE]>>>::try_from(x) };
                        match res {
                            Ok(u) => (H::X(u), true),
                            Err(a) => (H::A(a), false),
                        }
                    });
                    compare(&exp, &delta(&s), VERDICT | UNWRAP, true, &what, cx);
                    r.hs.insert(i, nh);
                    let expect = m.al(a).owners == 1;
                    if ok != expect {
                        cx.fail(VERDICT | UNWRAP, "uniqueness-verdict", format!("{}: sole ownership granted={} but the model has {} owning handles", what, ok, m.al(a).owners));
                        return false;
                    }
                    if ok {
                        m.hs[i].k = K::X;
                    }
                    true
                }
                GetMutW | GetUniqueW | DerefMutW => {
                    let granted = cap(|| match (&mut r.hs[i], hop) {
                        (H::A(x), GetMutW) => Arc::get_mut(x).map(|p| p.iter_mut().for_each(|e| e.flip())).is_some(),
                        (H::E(x), GetMutW) => Arc::get_mut(x).map(|p| p.slice.iter_mut().for_each(|e| e.flip())).is_some(),
                        (H::A(x), GetUniqueW) => Arc::get_unique(x).map(|p| p.iter_mut().for_each(|e| e.flip())).is_some(),
                        (H::X(x), DerefMutW) => {
                            x.iter_mut().for_each(|e| e.flip());
                            true
                        }
                        _ => unreachable!(),
                    });
                    compare(&exp, &delta(&s), VERDICT, true, &what, cx);
                    let expect = m.al(a).owners == 1;
                    if granted != expect {
                        cx.fail(VERDICT, "uniqueness-verdict", format!("{}: mutable access granted={} but the model has {} owning handles", what, granted, m.al(a).owners));
                        return false;
                    }
                    if granted {
                        m.al_mut(a).val ^= 1;
                    }
                    true
                }
                BorrowedCount => false,
            }
        }
    }
}

impl Universe for UL {
    type Real = Real;
    type Model = Model;
    type Op = Op;
    const NAME: &'static str = "L";

    fn new() -> (Real, Model) {
        (Real { hs: Vec::with_capacity(16), blocks: Vec::with_capacity(16) }, Model { slots: [None, None, None], hs: Vec::with_capacity(16) })
    }

    fn enabled(m: &Model, b: &Bounds) -> Vec<Op> {
        let mut v = vec![];
        let live = m.slots.iter().filter(|s| s.is_some()).count();
        if m.hs.len() < b.max_handles && live < b.max_allocs.min(3) {
            for c in SLICE_CTORS {
                for n in [0u8, 2] {
                    v.push(Op::New(*c, n));
                }
            }
            for c in STR_CTORS {
                for n in [0u8, 1] {
                    v.push(Op::New(*c, n));
                }
            }
        }
        for (i, h) in m.hs.iter().enumerate() {
            if m.hs[..i].iter().any(|g| g.k == h.k && g.a == h.a) {
                continue;
            }
            for op in ALL_HOPS {
                if !applicable(h.k, *op) {
                    continue;
                }
                if *op == HOp::Clone && m.hs.len() >= b.max_handles {
                    continue;
                }
                v.push(Op::H(i as u8, *op));
            }
        }
        v
    }

    fn step(r: &mut Real, m: &mut Model, op: &Op, cx: &mut Ctx) -> bool {
        let ok = step_inner(r, m, op, cx);
        r.register();
        ok
    }

    fn observe(r: &Real, m: &Model, model_ok: bool, cx: &mut Ctx) {
        r.invariant(cx);
        if !model_ok {
            return;
        }
        let s = snap();
        for (i, (h, mh)) in r.hs.iter().zip(m.hs.iter()).enumerate() {
            let al = m.al(mh.a);
            let tag = format!("handle#{} {:?}", i, mh.k);
            let (_, doff) = al.layout();
            match (view(h), &al.ty) {
                (View::Slice(sl), Ty::Slice(ids)) => {
                    if sl.len() != ids.len() {
                        cx.fail(LIFETIME | ADDRESS, "length-mismatch", format!("{}: slice length {}, allocation holds {}", tag, sl.len(), ids.len()));
                    }
                    for (k, e) in sl.iter().enumerate().take(ids.len()) {
                        let p = e.peek();
                        if !p.intact() || p.id != ids[k] {
                            cx.fail(LIFETIME, "read-not-intact", format!("{}: element {} reads {} (id {}), expected intact id {}", tag, k, p.describe(), p.id, ids[k]));
                        } else if p.val != al.val {
                            cx.fail(LIFETIME | VERDICT, "read-wrong-value", format!("{}: element {} value {}, model says {}", tag, k, p.val, al.val));
                        }
                    }
                }
                (View::Str(t), Ty::Str(ix)) => {
                    if t != TEXTS[*ix] {
                        cx.fail(LIFETIME, "read-not-intact", format!("{}: string reads {:?}, expected {:?}", tag, t, TEXTS[*ix]));
                    }
                }
                _ => cx.fail(0, "machinery:type-confusion", format!("{}: payload type differs from the model", tag)),
            }
            if data_addr(h) != al.block + doff {
                cx.fail(ADDRESS, "address", format!("{}: value at {:#x}, expected {:#x}", tag, data_addr(h), al.block + doff));
            }
            let own = al.owners as usize;
            let mut counts: Vec<(&'static str, usize)> = vec![];
            let mut heap: Vec<(&'static str, usize)> = vec![];
            let mut uniq: Vec<(&'static str, bool)> = vec![];
            match h {
                H::A(x) => {
                    counts.push(("Arc<[T]>::count", Arc::count(x)));
                    counts.push(("Arc<[T]>::strong_count", Arc::strong_count(x)));
                    heap.push(("Arc<[T]>::heap_ptr", x.heap_ptr() as usize));
                    uniq.push(("Arc<[T]>::is_unique", x.is_unique()));
                    if x.as_ptr() as *const u8 as usize != al.block + doff {
                        cx.fail(ADDRESS, "address", format!("{}: as_ptr {:#x} != value address", tag, x.as_ptr() as *const u8 as usize));
                    }
                }
                H::E(x) => {
                    counts.push(("Arc<HeaderSlice<(),[T]>>::count", Arc::count(x)));
                    heap.push(("erased heap_ptr", x.heap_ptr() as usize));
                    uniq.push(("erased is_unique", x.is_unique()));
                }
                H::S(x) => {
                    counts.push(("Arc<str>::count", Arc::count(x)));
                    heap.push(("Arc<str>::heap_ptr", x.heap_ptr() as usize));
                    uniq.push(("Arc<str>::is_unique", x.is_unique()));
                }
                H::Se(x) => {
                    counts.push(("Arc<HeaderSlice<(),str>>::count", Arc::count(x)));
                    heap.push(("erased str heap_ptr", x.heap_ptr() as usize));
                }
                H::X(_) => {
                    if own != 1 {
                        cx.fail(VERDICT, "unique-shared", format!("{}: a UniqueArc exists while the model has {} owners", tag, own));
                    }
                }
                H::R(_) | H::Sr(_) => {}
            }
            for (w, c) in counts {
                if c != own {
                    cx.fail(COUNT, "count-accessor", format!("{}: {} reports {}, the model has {} owning handles", tag, w, c, own));
                }
            }
            for (w, g) in heap {
                if g != al.block {
                    cx.fail(ADDRESS, "address", format!("{}: {} = {:#x}, block start {:#x}", tag, w, g, al.block));
                }
            }
            for (w, u) in uniq {
                if u != (own == 1) {
                    cx.fail(VERDICT, "is-unique", format!("{}: {} = {} with {} owning handles", tag, w, u, own));
                }
            }
        }
        for i in 0..r.hs.len() {
            for j in (i + 1)..r.hs.len() {
                match (&r.hs[i], &r.hs[j]) {
                    (H::A(x), H::A(y)) => {
                        let _ = (x == y, x.cmp(y));
                        if Arc::ptr_eq(x, y) != (m.hs[i].a == m.hs[j].a) {
                            cx.fail(ADDRESS, "ptr-eq", "Arc<[T]>::ptr_eq disagrees with allocation identity".into());
                        }
                    }
                    (H::S(x), H::S(y)) => {
                        let _ = (x == y, x.cmp(y));
                    }
                    _ => {}
                }
            }
        }
        let d = delta(&s);
        let writes: Vec<_> = d.atom.iter().filter(|a| a.is_rmw()).collect();
        if !writes.is_empty() {
            cx.fail(COUNT, "borrow-touches-count", format!("reading, counting and comparing wrote to a reference count: {:?}", writes.iter().map(|g| (g.addr, g.kind, g.arg)).collect::<Vec<_>>()));
        }
        if !d.drops.is_empty() {
            cx.fail(LIFETIME, "borrow-drops", format!("reading ran destructors {:?}", d.drops));
        }
        for p in &d.perr {
            cx.fail(LIFETIME, "payload-error", p.clone());
        }
    }

    fn finish(mut r: Real, mut m: Model, reverse: bool, cx: &mut Ctx) {
        while !r.hs.is_empty() {
            let i = if reverse { r.hs.len() - 1 } else { 0 };
            let h = r.hs.remove(i);
            let mh = m.hs.remove(i);
            let s = snap();
            cap(|| release_real(h));
            let mut exp = Exp::default();
            m.release(mh.a, &mut exp);
            compare(&exp, &delta(&s), LIFETIME, false, &format!("closing: release {:?} handle", mh.k), cx);
        }
        r.invariant(cx);
        let live = vrt::arena::live_blocks();
        if !live.is_empty() {
            cx.fail(LIFETIME, "leak", format!("after every handle was released {} block(s) are still allocated: {:?}", live.len(), live));
        }
        let mut all: Vec<u32> = track::drops_since(0).iter().map(|d| d.1).collect();
        all.sort();
        let want: Vec<u32> = (1..track::next_id_peek()).collect();
        if all != want {
            cx.fail(LIFETIME, "drops-total", format!("over the whole history every value must be destroyed exactly once: created ids 1..{}, destructor log {:?}", track::next_id_peek(), all));
        }
    }

    fn abandon(mut r: Real, cx: &mut Ctx) {
        while let Some(h) = r.hs.pop() {
            cap(|| release_real(h));
        }
        r.invariant(cx);
        for e in vrt::arena::errors_since(0) {
            if e.kind == vrt::arena::ErrKind::DoubleFree {
                cx.fail(LIFETIME, "double-free", format!("{:?}", e));
            }
        }
    }

    fn key(m: &Model) -> Vec<u8> {
        let mut best: Option<Vec<u8>> = None;
        for perm in [[0usize, 1, 2], [0, 2, 1], [1, 0, 2], [1, 2, 0], [2, 0, 1], [2, 1, 0]] {
            let mut k = vec![];
            for &s in &perm {
                match &m.slots[s] {
                    None => k.push(255),
                    Some(a) => k.push(match &a.ty {
                        Ty::Slice(ids) => (a.val as u8) | ((ids.len() as u8) << 1),
                        Ty::Str(i) => 64 + *i as u8,
                    }),
                }
            }
            let mut hs: Vec<(u8, u8)> = m.hs.iter().map(|h| (perm.iter().position(|&p| p == h.a).unwrap() as u8, h.k as u8)).collect();
            hs.sort();
            for (a, b) in hs {
                k.push(a);
                k.push(b);
            }
            if best.as_ref().map_or(true, |b| k < *b) {
                best = Some(k);
            }
        }
        best.unwrap()
    }

    fn op_str(op: &Op) -> String {
        match op {
            Op::New(c, l) => format!("New.{:?}.{}", c, l),
            Op::H(i, h) => format!("{:?}@{}", h, i),
        }
    }
    fn op_name(op: &Op) -> String {
        Self::op_str(op).split('@').next().unwrap().to_string()
    }
    fn op_parse(s: &str) -> Option<Op> {
        if let Some(c) = s.strip_prefix("New.") {
            let (c, l) = c.split_once('.')?;
            let l: u8 = l.parse().ok()?;
            return SLICE_CTORS.iter().chain(STR_CTORS.iter()).find(|x| format!("{:?}", x) == c).map(|c| Op::New(*c, l));
        }
        let (h, i) = s.split_once('@')?;
        let i: u8 = i.parse().ok()?;
        ALL_HOPS.iter().find(|x| format!("{:?}", x) == h).map(|h| Op::H(i, *h))
    }
}
