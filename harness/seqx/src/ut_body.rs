// Universe T: thin-capable payload `HeaderSlice<HeaderWithLength<Tracked<3>>, [EE]>`,
// fat / protected / thin / raw / unique handles, with_arc and with_arc_mut callbacks (DESIGN §2.4).
// Included twice (see main.rs): elements `Tracked<4>` ("T") and 64-aligned `TrackedW<4>` ("TW").
use crate::cmp::*;
use crate::engine::*;
use std::alloc::Layout;
use std::ffi::c_void;
use std::mem::MaybeUninit;
use triomphe::verif_hook::Rmw;
use triomphe::{Arc, HeaderSlice, HeaderSliceWithLengthProtected, HeaderWithLength, ThinArc, UniqueArc};
use vrt::arena::cap;
use vrt::track::{self, Tracked};

pub type HH = Tracked<3>;
pub type Unc = HeaderSlice<HeaderWithLength<HH>, [EE]>;
pub type Prot = HeaderSliceWithLengthProtected<HH, EE>;
pub type Thin = ThinArc<HH, EE>;

#[derive(Clone, Copy, PartialEq, Eq, PartialOrd, Ord, Debug, Hash)]
pub enum K {
    F,
    G,
    T,
    Tr,
    Fr,
    X,
    W,
}
pub enum H {
    F(Arc<Unc>),
    G(Arc<Prot>),
    T(Thin),
    Tr(*const c_void),
    Fr(*const Unc),
    X(UniqueArc<Unc>),
    #[allow(dead_code)]
    W(*const c_void),
}
fn kind_of(h: &H) -> K {
    match h {
        H::F(_) => K::F,
        H::G(_) => K::G,
        H::T(_) => K::T,
        H::Tr(_) => K::Tr,
        H::Fr(_) => K::Fr,
        H::X(_) => K::X,
        H::W(_) => K::W,
    }
}

#[derive(Clone, Debug)]
pub struct MA {
    pub hid: u32,
    pub eids: Vec<u32>,
    pub val: u32,
    pub owners: u32,
    pub block: usize,
}
impl MA {
    fn len(&self) -> usize {
        self.eids.len()
    }
}
#[derive(Clone, Debug)]
pub struct MH {
    pub k: K,
    pub a: usize,
}
#[derive(Clone, Debug)]
pub struct Model {
    pub slots: [Option<MA>; 3],
    pub hs: Vec<MH>,
}
pub struct Real {
    pub hs: Vec<H>,
    /// (block, header id, element ids)
    pub blocks: Vec<(usize, u32, Vec<u32>)>,
}

#[derive(Clone, Copy, Debug, PartialEq, Eq)]
pub enum Ctor {
    FatIter,
    FatVec,
    ThinIter,
    UninitFat,
}
const ALL_CTORS: &[Ctor] = &[Ctor::FatIter, Ctor::FatVec, Ctor::ThinIter, Ctor::UninitFat];

#[derive(Clone, Copy, Debug, PartialEq, Eq)]
pub enum Wam {
    Nothing,
    Write,
    CloneOut,
    ReplaceFresh,
    Swap,
}
#[derive(Clone, Copy, Debug, PartialEq, Eq)]
pub enum HOp {
    Clone,
    Drop,
    IntoThin,
    FromThin,
    ProtIntoThin,
    ProtFromThin,
    IntoRawThin,
    FromRawThin,
    IntoRawFat,
    FromRawFat,
    IntoW,
    FromW,
    Shareable,
    TryUnique,
    WithArcClone,
    GetMutW,
    DerefMutW,
    Wam(Wam, bool), // (behaviour, then panic)
}
fn all_hops() -> Vec<HOp> {
    use HOp::*;
    let mut v = vec![Clone, Drop, IntoThin, FromThin, ProtIntoThin, ProtFromThin, IntoRawThin, FromRawThin, IntoRawFat, FromRawFat, IntoW, FromW, Shareable, TryUnique, WithArcClone, GetMutW, DerefMutW];
    for w in [self::Wam::Nothing, self::Wam::Write, self::Wam::CloneOut, self::Wam::ReplaceFresh, self::Wam::Swap] {
        for p in [false, true] {
            v.push(HOp::Wam(w, p));
        }
    }
    v
}
#[derive(Clone, Copy, Debug, PartialEq, Eq)]
pub enum Op {
    New(Ctor, u8),
    H(u8, HOp),
}

fn applicable(k: K, op: HOp) -> bool {
    use HOp::*;
    match op {
        Clone => matches!(k, K::F | K::G | K::T),
        Drop => matches!(k, K::F | K::G | K::T | K::X),
        IntoThin | IntoRawFat | TryUnique => k == K::F,
        GetMutW => matches!(k, K::F | K::G),
        ProtIntoThin => k == K::G,
        FromThin | ProtFromThin | IntoRawThin | WithArcClone | Wam(..) => k == K::T,
        IntoW => k == K::T && cfg!(feature = "cfg_all"),
        FromW => k == K::W,
        FromRawThin => k == K::Tr,
        FromRawFat => k == K::Fr,
        Shareable | DerefMutW => k == K::X,
    }
}
fn adds_handle(op: HOp) -> bool {
    matches!(op, HOp::Clone | HOp::WithArcClone | HOp::Wam(Wam::CloneOut, _))
}

/// compiler-rules layout of the allocation for a slice of `n`
pub fn layout(n: usize) -> (Layout, usize, usize) {
    let (inner, soff) = Layout::new::<HeaderWithLength<HH>>().extend(Layout::array::<EE>(n).unwrap()).unwrap();
    let (outer, doff) = Layout::new::<usize>().extend(inner.pad_to_align()).unwrap();
    (outer.pad_to_align(), doff, doff + soff)
}

impl Model {
    fn free_slot(&self) -> Option<usize> {
        self.slots.iter().position(|s| s.is_none())
    }
    fn al(&self, a: usize) -> &MA {
        self.slots[a].as_ref().expect("model: handle to dead slot")
    }
    fn al_mut(&mut self, a: usize) -> &mut MA {
        self.slots[a].as_mut().expect("model: handle to dead slot")
    }
    fn release(&mut self, a: usize, e: &mut Exp) {
        let al = self.al_mut(a);
        let (il, _, _) = layout(al.len());
        e.rmw.push((al.block, il.size(), Rmw::Sub, 1));
        al.owners -= 1;
        if al.owners == 0 {
            e.rmw_optional.push(e.rmw.len() - 1);
            e.drops.push((3, al.hid));
            for i in &al.eids {
                e.drops.push((4, *i));
            }
            e.events.push(ExpEv::Dealloc { addr: al.block, size: il.size(), align: il.align() });
            self.slots[a] = None;
        }
    }
    fn addref(&mut self, a: usize, e: &mut Exp) {
        let al = self.al_mut(a);
        let (il, _, _) = layout(al.len());
        e.rmw.push((al.block, il.size(), Rmw::Add, 1));
        al.owners += 1;
    }
}

/// view of the payload behind a handle
fn payload(h: &H) -> &Unc {
    match h {
        H::F(a) => a,
        H::G(a) => unsafe { &*(&**a as *const Prot as *const Unc) },
        H::T(t) => t,
        H::Tr(p) | H::W(p) => {
            // the documented way back: rebuild a ThinArc without owning it
            let t = std::mem::ManuallyDrop::new(unsafe { Thin::from_raw(*p as *const c_void) });
            unsafe { &*(&**t as *const Unc) }
        }
        H::Fr(p) => unsafe { &**p },
        H::X(x) => x,
    }
}
fn header_addr(h: &H) -> usize {
    &payload(h).header as *const HeaderWithLength<HH> as usize
}
fn release_real(h: H) {
    match h {
        H::Tr(p) => drop(unsafe { Thin::from_raw(p) }),
        H::W(p) => drop(unsafe { Thin::from_raw(p) }),
        H::Fr(p) => drop(unsafe { Arc::<Unc>::from_raw(p) }),
        other => drop(other),
    }
}

impl Real {
    fn register(&mut self) {
        for h in &self.hs {
            let p = header_addr(h);
            if let Some((addr, _, _, live)) = vrt::arena::block_of(p) {
                if live && !self.blocks.iter().any(|b| b.0 == addr) {
                    let pl = payload(h);
                    self.blocks.push((addr, pl.header.header.peek().id, pl.slice.iter().map(|e| e.peek().id).collect()));
                }
            }
        }
    }
    /// C01 on the real objects only
    fn invariant(&self, cx: &mut Ctx) {
        let drops = track::drops_since(0);
        let mut owners = vec![0usize; self.blocks.len()];
        for (i, h) in self.hs.iter().enumerate() {
            let p = header_addr(h);
            match vrt::arena::block_of(p) {
                None => cx.fail(LIFETIME | ADDRESS, "handle-outside-heap", format!("handle#{} {:?} points to {:#x}, which is in no block obtained from the allocator", i, kind_of(h), p)),
                Some((addr, _, _, live)) => {
                    if !live {
                        cx.fail(LIFETIME, "use-after-free", format!("handle#{} {:?} points into block {:#x}, which has been returned to the allocator", i, kind_of(h), addr));
                        continue;
                    }
                    let pl = payload(h);
                    if !pl.header.header.peek().intact() || pl.slice.iter().any(|e| !e.peek().intact()) {
                        cx.fail(LIFETIME, "handle-to-destroyed-value", format!("handle#{} {:?} reads a destroyed or unwritten header/element", i, kind_of(h)));
                    }
                    if let Some(k) = self.blocks.iter().position(|b| b.0 == addr) {
                        owners[k] += 1;
                    }
                }
            }
        }
        for (k, (block, hid, eids)) in self.blocks.iter().enumerate() {
            let mut ids: Vec<(u8, u32)> = vec![(3, *hid)];
            ids.extend(eids.iter().map(|e| (4u8, *e)));
            let live = vrt::arena::block_of(*block).map(|b| b.3).unwrap_or(false);
            for id in ids {
                let nd = drops.iter().filter(|d| **d == id).count();
                if owners[k] > 0 && nd > 0 {
                    cx.fail(LIFETIME, "destroyed-while-owned", format!("value {:?} was destroyed {} time(s) while {} owning handle(s) still refer to its allocation", id, nd, owners[k]));
                }
                if owners[k] == 0 && nd != 1 {
                    cx.fail(LIFETIME, "destroyed-not-once", format!("value {:?} has no owning handle left and its destructor ran {} times (must be exactly once)", id, nd));
                }
            }
            if owners[k] == 0 && live {
                cx.fail(LIFETIME, "leak", format!("block {:#x} is still allocated although no owning handle refers to it", block));
            }
        }
    }
}

pub struct UT;

fn elems(n: usize) -> impl ExactSizeIterator<Item = EE> {
    (0..n).map(|_| EE::new(0))
}

fn step_inner(r: &mut Real, m: &mut Model, op: &Op, cx: &mut Ctx) -> bool {
    let what = UT::op_str(op);
    match *op {
        Op::New(c, len) => {
            let n = len as usize;
            let Some(slot) = m.free_slot() else { return false };
            let (il, _, _) = layout(n);
            let first = track::next_id_peek();
            let s = snap();
            let mut exp = Exp::default();
            // identity order: header first, then elements (each ctor builds them in that order)
            let (h, k) = cap(|| match c {
                Ctor::FatIter => {
                    let hd = HeaderWithLength::new(HH::new(0), n);
                    (H::F(Arc::from_header_and_iter(hd, elems(n))), K::F)
                }
                Ctor::FatVec => {
                    let hd = HeaderWithLength::new(HH::new(0), n);
                    let mut v = vrt::arena::suspend(|| Vec::with_capacity(n));
                    v.extend(elems(n));
                    let a = Arc::from_header_and_vec(hd, v);
                    (H::F(a), K::F)
                }
                Ctor::ThinIter => (H::T(ThinArc::from_header_and_iter(HH::new(0), elems(n))), K::T),
                Ctor::UninitFat => {
                    let hd = HeaderWithLength::new(HH::new(0), n);
                    let mut u = UniqueArc::<HeaderSlice<HeaderWithLength<HH>, [MaybeUninit<EE>]>>::from_header_and_uninit_slice(hd, n);
                    for s in u.slice.iter_mut() {
                        s.write(EE::new(0));
                    }
                    (H::X(unsafe { u.assume_init_slice_with_header() }), K::X)
                }
            });
            exp.events.push(ExpEv::Alloc { size: il.size(), align: il.align() });
            let nb = compare(&exp, &delta(&s), LIFETIME | CTOR, false, &what, cx);
            let Some(&block) = nb.first() else {
                cap(|| release_real(h)); // nothing may leak into the next execution
                return false;
            };
            m.slots[slot] = Some(MA { hid: first, eids: (0..n as u32).map(|i| first + 1 + i).collect(), val: 0, owners: 1, block });
            m.hs.push(MH { k, a: slot });
            r.hs.push(h);
            true
        }
        Op::H(i, hop) => {
            let i = i as usize;
            if i >= m.hs.len() || !applicable(m.hs[i].k, hop) || kind_of(&r.hs[i]) != m.hs[i].k {
                return false;
            }
            let a = m.hs[i].a;
            let s = snap();
            let mut exp = Exp::default();
            use HOp::*;
            match hop {
                Clone | WithArcClone => {
                    let nh = cap(|| match (&r.hs[i], hop) {
                        (H::F(x), Clone) => H::F(x.clone()),
                        (H::G(x), Clone) => H::G(x.clone()),
                        (H::T(x), Clone) => H::T(x.clone()),
                        (H::T(x), WithArcClone) => H::F(x.with_arc(|f| f.clone())),
                        _ => unreachable!(),
                    });
                    m.addref(a, &mut exp);
                    compare(&exp, &delta(&s), LIFETIME | THIN, false, &what, cx);
                    m.hs.push(MH { k: kind_of(&nh), a });
                    r.hs.push(nh);
                    true
                }
                Drop => {
                    let h = r.hs.remove(i);
                    m.hs.remove(i);
                    cap(|| drop(h));
                    m.release(a, &mut exp);
                    compare(&exp, &delta(&s), LIFETIME, false, &what, cx);
                    true
                }
                IntoThin | FromThin | ProtIntoThin | ProtFromThin | IntoRawThin | FromRawThin | IntoRawFat | FromRawFat | IntoW | FromW | Shareable => {
                    let h = r.hs.remove(i);
                    let before = header_addr(&h);
                    let nh = cap(|| match (h, hop) {
                        (H::F(x), IntoThin) => H::T(Arc::into_thin(x)),
                        (H::T(x), FromThin) => H::F(Arc::from_thin(x)),
                        (H::G(x), ProtIntoThin) => H::T(Arc::protected_into_thin(x)),
                        (H::T(x), ProtFromThin) => H::G(Arc::protected_from_thin(x)),
                        (H::T(x), IntoRawThin) => H::Tr(x.into_raw()),
                        (H::Tr(x), FromRawThin) => H::T(unsafe { Thin::from_raw(x) }),
                        (H::F(x), IntoRawFat) => H::Fr(Arc::into_raw(x)),
                        (H::Fr(x), FromRawFat) => H::F(unsafe { Arc::from_raw(x) }),
                        #[cfg(feature = "cfg_all")]
                        (H::T(x), IntoW) => H::W(<Thin as arc_swap::RefCnt>::into_ptr(x) as *const c_void),
                        #[cfg(feature = "cfg_all")]
                        (H::W(x), FromW) => H::T(unsafe { <Thin as arc_swap::RefCnt>::from_ptr(x) }),
                        (H::X(x), Shareable) => H::F(x.shareable()),
                        _ => unreachable!(),
                    });
                    compare(&exp, &delta(&s), LIFETIME | THIN | ADDRESS, false, &what, cx);
                    if header_addr(&nh) != before {
                        cx.fail_derail(THIN | ADDRESS, "conversion-moved", format!("{}: the handle refers to {:#x} after the conversion, {:#x} before", what, header_addr(&nh), before));
                    }
                    m.hs[i].k = kind_of(&nh);
                    r.hs.insert(i, nh);
                    true
                }
                TryUnique => {
                    let h = r.hs.remove(i);
                    let H::F(x) = h else { unreachable!() };
                    let (nh, ok) = cap(|| match Arc::try_unique(x) {
                        Ok(u) => (H::X(u), true),
                        Err(a) => (H::F(a), false),
                    });
                    compare(&exp, &delta(&s), VERDICT | UNWRAP, true, &what, cx);
                    r.hs.insert(i, nh);
                    let expect = m.al(a).owners == 1;
                    if ok != expect {
                        cx.fail(VERDICT | UNWRAP, "uniqueness-verdict", format!("{}: sole ownership granted={} but the model has {} owning handles", what, ok, m.al(a).owners));
                        return false;
                    }
                    if ok {
                        m.hs[i].k = K::X;
                    }
                    true
                }
                GetMutW | DerefMutW => {
                    let granted = cap(|| match &mut r.hs[i] {
                        H::F(x) => Arc::get_mut(x)
                            .map(|p| {
                                p.header.header.flip();
                                if let Some(e) = p.slice.first_mut() {
                                    e.flip()
                                }
                            })
                            .is_some(),
                        H::G(x) => Arc::get_mut(x)
                            .map(|p| {
                                p.header_mut().flip();
                                if let Some(e) = p.slice_mut().first_mut() {
                                    e.flip()
                                }
                            })
                            .is_some(),
                        H::X(x) => {
                            x.header.header.flip();
                            if let Some(e) = x.slice.first_mut() {
                                e.flip()
                            }
                            true
                        }
                        _ => unreachable!(),
                    });
                    compare(&exp, &delta(&s), VERDICT, true, &what, cx);
                    let expect = m.al(a).owners == 1;
                    if granted != expect {
                        cx.fail(VERDICT, "uniqueness-verdict", format!("{}: mutable access granted={} but the model has {} owning handles", what, granted, m.al(a).owners));
                        return false;
                    }
                    if granted {
                        m.al_mut(a).val ^= 1;
                    }
                    true
                }
                Wam(beh, panics) => {
                    // partner for Swap: the first live G handle
                    let partner = m.hs.iter().position(|h| h.k == K::G);
                    if beh == self::Wam::Swap && partner.is_none() {
                        return false;
                    }
                    let fresh_slot = m.free_slot();
                    if beh == self::Wam::ReplaceFresh && fresh_slot.is_none() {
                        return false;
                    }
                    let first_new = track::next_id_peek();
                    let new_len = 2 - m.al(a).len().min(2); // the other length
                    let mut out: Option<Arc<Prot>> = None;
                    let mut granted: Option<bool> = None;
                    // take the partner out so that the closure can swap with it
                    let mut part: Option<Arc<Prot>> = None;
                    if beh == self::Wam::Swap {
                        let H::G(g) = std::mem::replace(&mut r.hs[partner.unwrap()], H::Tr(std::ptr::null())) else { unreachable!() };
                        part = Some(g);
                    }
                    let res = {
                        let H::T(t) = &mut r.hs[i] else { unreachable!() };
                        vrt::catch(|| {
                            cap(|| {
                                t.with_arc_mut(|arc| {
                                    match beh {
                                        self::Wam::Nothing => {}
                                        self::Wam::Write => {
                                            granted = Some(
                                                Arc::get_mut(arc)
                                                    .map(|p| {
                                                        p.header_mut().flip();
                                                        if let Some(e) = p.slice_mut().first_mut() {
                                                            e.flip()
                                                        }
                                                    })
                                                    .is_some(),
                                            );
                                        }
                                        self::Wam::CloneOut => out = Some(arc.clone()),
                                        self::Wam::ReplaceFresh => {
                                            *arc = Arc::protected_from_thin(ThinArc::from_header_and_iter(HH::new(0), elems(new_len)));
                                        }
                                        self::Wam::Swap => std::mem::swap(arc, part.as_mut().unwrap()),
                                    }
                                    if panics {
                                        // the panic payload is the harness's, not the crate's: keep it out of the window
                                        vrt::arena::suspend(|| panic!("callback panics after acting"));
                                    }
                                })
                            })
                        })
                    };
                    if let Some(g) = part {
                        r.hs[partner.unwrap()] = H::G(g);
                    }
                    if res.is_err() != panics {
                        cx.fail_derail(THIN, "wam-outcome", format!("{}: panicked={} expected {}", what, res.is_err(), panics));
                    }
                    match beh {
                        self::Wam::Nothing => {}
                        self::Wam::Write => {
                            let expect = m.al(a).owners == 1;
                            if granted != Some(expect) {
                                cx.fail(VERDICT | THIN, "uniqueness-verdict", format!("{}: get_mut inside with_arc_mut granted={:?} but the model has {} owning handles", what, granted, m.al(a).owners));
                                return false;
                            }
                            if expect {
                                m.al_mut(a).val ^= 1;
                            }
                        }
                        self::Wam::CloneOut => {
                            m.addref(a, &mut exp);
                            m.hs.push(MH { k: K::G, a });
                            match out {
                                Some(g) => r.hs.push(H::G(g)),
                                None => return false,
                            }
                        }
                        self::Wam::ReplaceFresh => {
                            let (nl, _, _) = layout(new_len);
                            exp.events.push(ExpEv::Alloc { size: nl.size(), align: nl.align() });
                            m.release(a, &mut exp);
                        }
                        self::Wam::Swap => {
                            let j = partner.unwrap();
                            let aj = m.hs[j].a;
                            m.hs[j].a = a;
                            m.hs[i].a = aj;
                        }
                    }
                    let nb = compare(&exp, &delta(&s), THIN | LIFETIME, false, &what, cx);
                    if beh == self::Wam::ReplaceFresh {
                        let Some(&block) = nb.first() else { return false };
                        let slot = fresh_slot.unwrap();
                        m.slots[slot] = Some(MA { hid: first_new, eids: (0..new_len as u32).map(|k| first_new + 1 + k).collect(), val: 0, owners: 1, block });
                        m.hs[i].a = slot;
                    }
                    // the ThinArc must now point at whatever the callback left in the Arc
                    let want = m.al(m.hs[i].a).block;
                    let H::T(t) = &r.hs[i] else { unreachable!() };
                    if t.heap_ptr() as usize != want {
                        cx.fail_derail(THIN, "wam-write-back", format!("{}: after the callback the ThinArc points to block {:#x}, the Arc it lent out was left pointing to {:#x}", what, t.heap_ptr() as usize, want));
                    }
                    true
                }
            }
        }
    }
}

impl Universe for UT {
    type Real = Real;
    type Model = Model;
    type Op = Op;
    const NAME: &'static str = UNAME;

    fn new() -> (Real, Model) {
        (Real { hs: Vec::with_capacity(16), blocks: Vec::with_capacity(16) }, Model { slots: [None, None, None], hs: Vec::with_capacity(16) })
    }

    fn enabled(m: &Model, b: &Bounds) -> Vec<Op> {
        let mut v = vec![];
        let live = m.slots.iter().filter(|s| s.is_some()).count();
        if m.hs.len() < b.max_handles && live < b.max_allocs.min(3) {
            for c in ALL_CTORS {
                for len in [0u8, 2] {
                    v.push(Op::New(*c, len));
                }
            }
        }
        for (i, h) in m.hs.iter().enumerate() {
            if m.hs[..i].iter().any(|g| g.k == h.k && g.a == h.a) {
                continue;
            }
            for op in all_hops() {
                if !applicable(h.k, op) {
                    continue;
                }
                if adds_handle(op) && m.hs.len() >= b.max_handles {
                    continue;
                }
                if let HOp::Wam(Wam::ReplaceFresh, _) = op {
                    if live >= 2 {
                        continue;
                    }
                }
                if let HOp::Wam(Wam::Swap, _) = op {
                    if !m.hs.iter().any(|g| g.k == K::G) {
                        continue;
                    }
                }
                v.push(Op::H(i as u8, op));
            }
        }
        v
    }

    fn step(r: &mut Real, m: &mut Model, op: &Op, cx: &mut Ctx) -> bool {
        let ok = step_inner(r, m, op, cx);
        r.register();
        ok
    }

    fn observe(r: &Real, m: &Model, model_ok: bool, cx: &mut Ctx) {
        r.invariant(cx);
        if !model_ok {
            return;
        }
        let s = snap();
        if r.hs.len() != m.hs.len() {
            cx.fail(0, "machinery:handle-count", "real and model handle lists differ in length".into());
            return;
        }
        for (i, (h, mh)) in r.hs.iter().zip(m.hs.iter()).enumerate() {
            let al = m.al(mh.a);
            let tag = format!("handle#{} {:?}", i, mh.k);
            let (_, doff, soff) = layout(al.len());
            let pl = payload(h);
            // contents: header, recorded length, every element
            let hp = pl.header.header.peek();
            if !hp.intact() || hp.id != al.hid {
                cx.fail(LIFETIME, "read-not-intact", format!("{}: header reads {} (id {}), expected intact id {}", tag, hp.describe(), hp.id, al.hid));
            } else if hp.val != al.val {
                cx.fail(LIFETIME | VERDICT | THIN, "read-wrong-value", format!("{}: header value {}, model says {}", tag, hp.val, al.val));
            }
            if pl.header.length != al.len() || pl.slice.len() != al.len() {
                cx.fail(THIN, "length-mismatch", format!("{}: recorded length {}, slice length {}, real length {}", tag, pl.header.length, pl.slice.len(), al.len()));
            }
            for (k, e) in pl.slice.iter().enumerate().take(al.len()) {
                let p = e.peek();
                if !p.intact() || p.id != al.eids[k] {
                    cx.fail(LIFETIME | THIN, "read-not-intact", format!("{}: element {} reads {} (id {}), expected intact id {}", tag, k, p.describe(), p.id, al.eids[k]));
                }
                let ea = e as *const EE as usize;
                let want = al.block + soff + k * std::mem::size_of::<EE>();
                if ea != want {
                    cx.fail(THIN | ADDRESS, "element-address", format!("{}: element {} at {:#x}, expected {:#x}", tag, k, ea, want));
                }
            }
            if header_addr(h) != al.block + doff {
                cx.fail(THIN | ADDRESS, "address", format!("{}: value at {:#x}, expected {:#x}", tag, header_addr(h), al.block + doff));
            }
            let own = al.owners as usize;
            let mut counts: Vec<(&'static str, usize)> = vec![];
            let mut heap: Vec<(&'static str, usize)> = vec![];
            let mut uniq: Vec<(&'static str, bool)> = vec![];
            match h {
                H::F(x) => {
                    counts.push(("Arc::count", Arc::count(x)));
                    counts.push(("Arc::strong_count", Arc::strong_count(x)));
                    heap.push(("Arc::heap_ptr", x.heap_ptr() as usize));
                    uniq.push(("Arc::is_unique", x.is_unique()));
                    if x.as_ptr() as *const u8 as usize != al.block + doff {
                        cx.fail(ADDRESS, "address", format!("{}: Arc::as_ptr {:#x} != value address {:#x}", tag, x.as_ptr() as *const u8 as usize, al.block + doff));
                    }
                }
                H::G(x) => {
                    counts.push(("Arc<Protected>::count", Arc::count(x)));
                    heap.push(("Arc<Protected>::heap_ptr", x.heap_ptr() as usize));
                    uniq.push(("Arc<Protected>::is_unique", x.is_unique()));
                    if x.length() != al.len() || x.slice().len() != al.len() || x.header().peek().id != al.hid {
                        cx.fail(THIN, "length-mismatch", format!("{}: protected accessors disagree with the allocation", tag));
                    }
                }
                H::T(x) => {
                    counts.push(("ThinArc::strong_count", Thin::strong_count(x)));
                    counts.push(("ThinArc::with_arc(count)", x.with_arc(|f| Arc::count(f))));
                    heap.push(("ThinArc::heap_ptr", x.heap_ptr() as usize));
                    heap.push(("ThinArc::ptr", x.ptr() as usize));
                    x.with_arc(|f| {
                        heap.push(("ThinArc::with_arc heap_ptr", f.heap_ptr() as usize));
                        uniq.push(("ThinArc::with_arc(is_unique)", f.is_unique()));
                        // the fat view is the very same header and elements
                        if &f.header as *const _ as usize != al.block + doff || f.slice.as_ptr() as usize != al.block + soff || f.slice.len() != al.len() {
                            cx.fail(THIN | ADDRESS, "thin-fat-differ", format!("{}: the fat Arc lent by with_arc sees header {:#x} slice {:#x} len {}", tag, &f.header as *const _ as usize, f.slice.as_ptr() as usize, f.slice.len()));
                        }
                    });
                }
                H::X(_) => {
                    if own != 1 {
                        cx.fail(VERDICT, "unique-shared", format!("{}: a UniqueArc exists while the model has {} owners", tag, own));
                    }
                }
                H::Tr(p) | H::W(p) => {
                    let t = std::mem::ManuallyDrop::new(unsafe { Thin::from_raw(*p as *const c_void) });
                    counts.push(("ThinArc::from_raw(raw) strong_count", Thin::strong_count(&t)));
                }
                H::Fr(_) => {}
            }
            for (w, c) in counts {
                if c != own {
                    cx.fail(COUNT, "count-accessor", format!("{}: {} reports {}, the model has {} owning handles", tag, w, c, own));
                }
            }
            for (w, g) in heap {
                if g != al.block {
                    cx.fail(ADDRESS, "address", format!("{}: {} = {:#x}, block start {:#x}", tag, w, g, al.block));
                }
            }
            for (w, u) in uniq {
                if u != (own == 1) {
                    cx.fail(VERDICT, "is-unique", format!("{}: {} = {} with {} owning handles", tag, w, u, own));
                }
            }
        }
        // comparisons through thin handles touch no count
        for i in 0..r.hs.len() {
            for j in (i + 1)..r.hs.len() {
                if let (H::T(x), H::T(y)) = (&r.hs[i], &r.hs[j]) {
                    let _ = (x == y, x.cmp(y));
                }
            }
        }
        let d = delta(&s);
        let writes: Vec<_> = d.atom.iter().filter(|a| a.is_rmw()).collect();
        if !writes.is_empty() {
            cx.fail(COUNT | THIN, "borrow-touches-count", format!("reading, borrowing, counting and comparing wrote to a reference count: {:?}", writes.iter().map(|g| (g.addr, g.kind, g.arg)).collect::<Vec<_>>()));
        }
        if !d.drops.is_empty() || !d.clones.is_empty() {
            cx.fail(LIFETIME, "borrow-drops", format!("reading/borrowing ran destructors {:?} / clones {:?}", d.drops, d.clones));
        }
        for p in &d.perr {
            cx.fail(LIFETIME, "payload-error", p.clone());
        }
    }

    fn finish(mut r: Real, mut m: Model, reverse: bool, cx: &mut Ctx) {
        while !r.hs.is_empty() {
            let i = if reverse { r.hs.len() - 1 } else { 0 };
            let h = r.hs.remove(i);
            let mh = m.hs.remove(i);
            let s = snap();
            cap(|| release_real(h));
            let mut exp = Exp::default();
            m.release(mh.a, &mut exp);
            compare(&exp, &delta(&s), LIFETIME, false, &format!("closing: release {:?} handle", mh.k), cx);
        }
        r.invariant(cx);
        let live = vrt::arena::live_blocks();
        if !live.is_empty() {
            cx.fail(LIFETIME, "leak", format!("after every handle was released {} block(s) are still allocated: {:?}", live.len(), live));
        }
        let mut all: Vec<u32> = track::drops_since(0).iter().map(|d| d.1).collect();
        all.sort();
        let want: Vec<u32> = (1..track::next_id_peek()).collect();
        if all != want {
            cx.fail(LIFETIME, "drops-total", format!("over the whole history every value must be destroyed exactly once: created ids 1..{}, destructor log {:?}", track::next_id_peek(), all));
        }
        for b in vrt::arena::check_redzones() {
            cx.fail(LAYOUT, "redzone", format!("write outside block {:#x}", b));
        }
    }

    fn abandon(mut r: Real, cx: &mut Ctx) {
        while let Some(h) = r.hs.pop() {
            cap(|| release_real(h));
        }
        r.invariant(cx);
        for e in vrt::arena::errors_since(0) {
            if e.kind == vrt::arena::ErrKind::DoubleFree {
                cx.fail(LIFETIME, "double-free", format!("{:?}", e));
            }
        }
    }

    fn key(m: &Model) -> Vec<u8> {
        let mut best: Option<Vec<u8>> = None;
        for perm in [[0usize, 1, 2], [0, 2, 1], [1, 0, 2], [1, 2, 0], [2, 0, 1], [2, 1, 0]] {
            let mut k = vec![];
            for &s in &perm {
                match &m.slots[s] {
                    None => k.push(255),
                    Some(a) => k.push((a.val as u8) | ((a.len() as u8) << 1)),
                }
            }
            let mut hs: Vec<(u8, u8)> = m.hs.iter().map(|h| (perm.iter().position(|&p| p == h.a).unwrap() as u8, h.k as u8)).collect();
            hs.sort();
            for (a, b) in hs {
                k.push(a);
                k.push(b);
            }
            if best.as_ref().map_or(true, |b| k < *b) {
                best = Some(k);
            }
        }
        best.unwrap()
    }

    fn op_str(op: &Op) -> String {
        match op {
            Op::New(c, l) => format!("New.{:?}.{}", c, l),
            Op::H(i, HOp::Wam(w, p)) => format!("Wam.{:?}.{}@{}", w, if *p { "panic" } else { "ret" }, i),
            Op::H(i, h) => format!("{:?}@{}", h, i),
        }
    }
    fn op_name(op: &Op) -> String {
        let s = Self::op_str(op);
        s.split('@').next().unwrap().to_string()
    }
    fn op_parse(s: &str) -> Option<Op> {
        if let Some(c) = s.strip_prefix("New.") {
            let (c, l) = c.split_once('.')?;
            let l: u8 = l.parse().ok()?;
            return ALL_CTORS.iter().find(|x| format!("{:?}", x) == c).map(|c| Op::New(*c, l));
        }
        let (h, i) = s.split_once('@')?;
        let i: u8 = i.parse().ok()?;
        all_hops().into_iter().find(|x| Self::op_name(&Op::H(0, *x)) == h).map(|h| Op::H(i, h))
    }
}
