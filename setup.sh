#!/bin/sh
# Offline build of the harness engines (filled in as engines are added).
set -e
cd "$(dirname "$0")"
exec ./check --setup
