"""C13: a finite matrix of client programs decided by the real compiler against the real crate
signatures (DESIGN §C13). Matrix 1: auto traits. Matrix 2: borrow escapes (+ positive controls)."""
import json
import os
import subprocess

PRELUDE = '''#![allow(unused, dead_code, deprecated)]
use std::cell::Cell;
use std::rc::Rc;
use std::sync::MutexGuard;
use triomphe::*;
pub fn need_send<T: ?Sized + Send>() {}
pub fn need_sync<T: ?Sized + Sync>() {}
pub struct Both(u8);
pub struct SendOnly(Cell<u8>);
pub struct SyncOnly(MutexGuard<'static, u8>);
pub struct Neither(Rc<u8>);
pub trait Tr {}
'''

CLASSES = {"Both": (True, True), "SendOnly": (True, False), "SyncOnly": (False, True), "Neither": (False, False)}

# handle constructor templates: (name, type template with {0} (and {1}), number of parameters, rule)
# rule "arc": Send and Sync iff every parameter is Send+Sync; "unique": Send iff P: Send, Sync iff P: Sync
HANDLES = [
    ("Arc<P>", "Arc<{0}>", 1, "arc"),
    ("Arc<[P]>", "Arc<[{0}]>", 1, "arc"),
    ("Arc<HeaderSlice<P1,[P2]>>", "Arc<HeaderSlice<{0}, [{1}]>>", 2, "arc"),
    ("ThinArc<P1,P2>", "ThinArc<{0}, {1}>", 2, "arc"),
    ("OffsetArc<P>", "OffsetArc<{0}>", 1, "arc"),
    ("ArcBorrow<'static,P>", "ArcBorrow<'static, {0}>", 1, "arc"),
    ("ArcBorrow<'static,[P]>", "ArcBorrow<'static, [{0}]>", 1, "arc"),
    ("ArcUnion<P1,P2>", "ArcUnion<{0}, {1}>", 2, "arc"),
    ("ArcUnionBorrow<'static,P1,P2>", "ArcUnionBorrow<'static, {0}, {1}>", 2, "arc"),
    ("UniqueArc<P>", "UniqueArc<{0}>", 1, "unique"),
    ("UniqueArc<[P]>", "UniqueArc<[{0}]>", 1, "unique"),
]
DYN = [  # (type, is_send, is_sync) for Arc<dyn ..> / UniqueArc<dyn ..>
    ("dyn Tr", False, False),
    ("dyn Tr + Send", True, False),
    ("dyn Tr + Sync", False, True),
    ("dyn Tr + Send + Sync", True, True),
]


def expected(rule, classes, trait):
    if rule == "arc":
        return all(CLASSES[c] == (True, True) for c in classes)
    s, y = CLASSES[classes[0]]
    return s if trait == "Send" else y


def gen_auto():
    """Returns (source, cells) where cells[i] = dict(name, line_start, line_end, accept)."""
    lines = PRELUDE.rstrip("\n").split("\n")
    cells = []

    def add(name, body, accept, generics=""):
        start = len(lines) + 1
        lines.append("pub fn cell_%d%s() {" % (len(cells), generics))
        lines.append("    " + body)
        lines.append("}")
        cells.append({"name": name, "line_start": start, "line_end": len(lines), "accept": accept})

    for hname, tmpl, npar, rule in HANDLES:
        combos = [[c] for c in CLASSES] if npar == 1 else [[a, b] for a in CLASSES for b in CLASSES]
        for combo in combos:
            ty = tmpl.format(*combo)
            for trait in ("Send", "Sync"):
                add("%s with %s: %s" % (hname, "/".join(combo), trait), "need_%s::<%s>();" % (trait.lower(), ty), expected(rule, combo, trait))
        # the generic ("for all T") form: full bounds accepted, each single bound removed rejected
        params = ["T", "U"][:npar]
        ty = tmpl.format(*params)
        for trait in ("Send", "Sync"):
            if rule == "arc":
                full = ", ".join("%s: Send + Sync + 'static" % p for p in params)
                add("%s generic, all parameters Send+Sync: %s" % (hname, trait), "need_%s::<%s>();" % (trait.lower(), ty), True, "<%s>" % full)
                for i, p in enumerate(params):
                    for missing in ("Send", "Sync"):
                        bounds = []
                        for q in params:
                            if q == p:
                                bounds.append("%s: %s + 'static" % (q, "Sync" if missing == "Send" else "Send"))
                            else:
                                bounds.append("%s: Send + Sync + 'static" % q)
                        add("%s generic, %s lacks %s: %s" % (hname, p, missing, trait), "need_%s::<%s>();" % (trait.lower(), ty), False, "<%s>" % ", ".join(bounds))
            else:
                add("%s generic, T: %s: %s" % (hname, trait, trait), "need_%s::<%s>();" % (trait.lower(), ty), True, "<T: %s + 'static>" % trait)
                other = "Sync" if trait == "Send" else "Send"
                add("%s generic, T: %s only: %s" % (hname, other, trait), "need_%s::<%s>();" % (trait.lower(), ty), False, "<T: %s + 'static>" % other)
    for dty, s, y in DYN:
        for trait in ("Send", "Sync"):
            add("Arc<%s>: %s" % (dty, trait), "need_%s::<Arc<%s>>();" % (trait.lower(), dty), s and y)
            add("UniqueArc<%s>: %s" % (dty, trait), "need_%s::<UniqueArc<%s>>();" % (trait.lower(), dty), s if trait == "Send" else y)
    return "\n".join(lines) + "\n", cells


# ---------------------------------------------------------------------------------------------- borrow escapes
BORROW_PRELUDE = '''#![allow(unused, dead_code, deprecated, unused_mut, unused_variables, unused_assignments)]
use triomphe::*;
pub fn touch<T: ?Sized>(_: &T) {}
pub fn mk() -> Arc<String> { Arc::new(String::from("x")) }
pub fn mk_thin() -> ThinArc<u8, u16> { ThinArc::from_header_and_slice(1, &[2, 3]) }
pub fn mk_off() -> OffsetArc<String> { Arc::into_raw_offset(mk()) }
pub fn mk_union() -> ArcUnion<String, u8> { ArcUnion::from_first(mk()) }
pub fn mk_unique() -> UniqueArc<String> { UniqueArc::new(String::from("u")) }
'''

# each cell: (name, escaping body, control body). Bodies are function bodies; a body may declare its own signature via "SIG:" first line.
ESCAPES = [
    # ---- route: return past the owner
    ("Deref reference returned past its Arc", "SIG:-> &'static String\nlet a = mk(); &*a", "SIG:-> usize\nlet a = mk(); let r = &*a; r.len()"),
    ("ArcBorrow returned past its Arc", "SIG:-> ArcBorrow<'static, String>\nlet a = mk(); a.borrow_arc()", "SIG:-> usize\nlet a = mk(); let b = a.borrow_arc(); b.len()"),
    ("ArcBorrow::get reference returned past its Arc", "SIG:-> &'static String\nlet a = mk(); a.borrow_arc().get()", "SIG:-> usize\nlet a = mk(); a.borrow_arc().get().len()"),
    ("OffsetArc::borrow_arc returned past its owner", "SIG:-> ArcBorrow<'static, String>\nlet o = mk_off(); o.borrow_arc()", "SIG:-> usize\nlet o = mk_off(); o.borrow_arc().len()"),
    ("get_mut reference returned past its Arc", "SIG:-> &'static mut String\nlet mut a = mk(); Arc::get_mut(&mut a).unwrap()", "SIG:-> usize\nlet mut a = mk(); Arc::get_mut(&mut a).unwrap().len()"),
    ("make_mut reference returned past its Arc", "SIG:-> &'static mut String\nlet mut a = mk(); Arc::make_mut(&mut a)", "SIG:-> usize\nlet mut a = mk(); Arc::make_mut(&mut a).len()"),
    ("make_unique reference returned past its Arc", "SIG:-> &'static mut UniqueArc<String>\nlet mut a = mk(); Arc::make_unique(&mut a)", "SIG:-> usize\nlet mut a = mk(); Arc::make_unique(&mut a).len()"),
    ("get_unique reference returned past its Arc", "SIG:-> &'static mut UniqueArc<String>\nlet mut a = mk(); Arc::get_unique(&mut a).unwrap()", "SIG:-> usize\nlet mut a = mk(); Arc::get_unique(&mut a).unwrap().len()"),
    ("OffsetArc::make_mut reference returned past its owner", "SIG:-> &'static mut String\nlet mut o = mk_off(); o.make_mut()", "SIG:-> usize\nlet mut o = mk_off(); o.make_mut().len()"),
    ("ArcUnion::borrow returned past the union", "SIG:-> ArcUnionBorrow<'static, String, u8>\nlet u = mk_union(); u.borrow()", "SIG:-> bool\nlet u = mk_union(); matches!(u.borrow(), ArcUnionBorrow::First(_))"),
    ("ArcUnion::as_second returned past the union", "SIG:-> Option<ArcBorrow<'static, String>>\nlet u: ArcUnion<u8, String> = ArcUnion::from_second(mk()); u.as_second()", "SIG:-> bool\nlet u: ArcUnion<u8, String> = ArcUnion::from_second(mk()); u.as_second().is_some()"),
    ("AsRef reference returned past its Arc", "SIG:-> &'static String\nlet a = mk(); a.as_ref()", "SIG:-> usize\nlet a = mk(); let r: &String = a.as_ref(); r.len()"),
    ("Borrow reference returned past its Arc", "SIG:-> &'static String\nlet a = mk(); std::borrow::Borrow::borrow(&a)", "SIG:-> usize\nlet a = mk(); let r: &String = std::borrow::Borrow::borrow(&a); r.len()"),
    ("UniqueArc Deref reference returned past its owner", "SIG:-> &'static String\nlet u = mk_unique(); &*u", "SIG:-> usize\nlet u = mk_unique(); (&*u).len()"),
    ("UniqueArc<MaybeUninit>::write reference returned past its owner", "SIG:-> &'static mut String\nlet mut u: UniqueArc<std::mem::MaybeUninit<String>> = UniqueArc::new_uninit(); u.write(String::new())", "SIG:-> usize\nlet mut u: UniqueArc<std::mem::MaybeUninit<String>> = UniqueArc::new_uninit(); let n = u.write(String::new()).len(); unsafe { drop(UniqueArc::assume_init(u)) }; n"),
    ("deprecated Arc<MaybeUninit>::write reference returned past its owner", "SIG:-> &'static mut u32\nlet mut a: Arc<std::mem::MaybeUninit<u32>> = Arc::new_uninit(); a.write(1)", "SIG:-> u32\nlet mut a: Arc<std::mem::MaybeUninit<u32>> = Arc::new_uninit(); *a.write(1)"),
    ("deprecated as_mut_slice reference returned past its owner", "SIG:-> &'static mut [std::mem::MaybeUninit<u32>]\nlet mut a: Arc<[std::mem::MaybeUninit<u32>]> = Arc::new_uninit_slice(2); a.as_mut_slice()", "SIG:-> usize\nlet mut a: Arc<[std::mem::MaybeUninit<u32>]> = Arc::new_uninit_slice(2); a.as_mut_slice().len()"),
    ("protected header() reference stored outside with_arc_mut", "let mut t = mk_thin(); let mut out: Option<&u8> = None; t.with_arc_mut(|a| { out = Some(a.header()); }); touch(&out);", "let mut t = mk_thin(); let mut out: Option<u8> = None; t.with_arc_mut(|a| { out = Some(*a.header()); }); touch(&out);"),
    ("protected slice_mut() reference stored outside with_arc_mut", "let mut t = mk_thin(); let mut out: Option<&mut [u16]> = None; t.with_arc_mut(|a| { out = Arc::get_mut(a).map(|p| p.slice_mut()); }); touch(&out);", "let mut t = mk_thin(); let mut out: Option<usize> = None; t.with_arc_mut(|a| { out = Arc::get_mut(a).map(|p| p.slice_mut().len()); }); touch(&out);"),
    ("ArcUnion::as_first returned past the union", "SIG:-> Option<ArcBorrow<'static, String>>\nlet u = mk_union(); u.as_first()", "SIG:-> bool\nlet u = mk_union(); u.as_first().is_some()"),
    ("UniqueArc DerefMut reference returned past its owner", "SIG:-> &'static mut String\nlet mut u = mk_unique(); &mut *u", "SIG:-> usize\nlet mut u = mk_unique(); (&mut *u).len()"),
    ("ThinArc Deref reference returned past its owner", "SIG:-> &'static [u16]\nlet t = mk_thin(); &t.slice", "SIG:-> usize\nlet t = mk_thin(); t.slice.len()"),
    # ---- route: stored in an outer variable from inside the callback
    ("ThinArc::with_arc lends an &Arc that is stored outside", "let t = mk_thin(); let mut out = None; t.with_arc(|a| { out = Some(a); }); touch(&out);", "let t = mk_thin(); let mut out = None; t.with_arc(|a| { out = Some(a.clone()); }); touch(&out);"),
    ("OffsetArc::with_arc lends an &Arc that is stored outside", "let o = mk_off(); let mut out = None; o.with_arc(|a| { out = Some(a); }); touch(&out);", "let o = mk_off(); let mut out = None; o.with_arc(|a| { out = Some(a.clone()); }); touch(&out);"),
    ("ArcBorrow::with_arc lends an &Arc that is stored outside", "let x = mk(); let b = x.borrow_arc(); let mut out = None; b.with_arc(|a| { out = Some(a); }); touch(&out);", "let x = mk(); let b = x.borrow_arc(); let mut out = None; b.with_arc(|a| { out = Some(a.clone()); }); touch(&out);"),
    ("with_raw_offset_arc lends an &OffsetArc that is stored outside", "let x = mk(); let mut out = None; x.with_raw_offset_arc(|o| { out = Some(o); }); touch(&out);", "let x = mk(); let mut out = None; x.with_raw_offset_arc(|o| { out = Some(o.clone()); }); touch(&out);"),
    ("with_arc_mut lends an &mut Arc that is stored outside", "let mut t = mk_thin(); let mut out = None; t.with_arc_mut(|a| { out = Some(a); }); touch(&out);", "let mut t = mk_thin(); let mut out = None; t.with_arc_mut(|a| { out = Some(a.clone()); }); touch(&out);"),
    ("with_arc_mut: reference into the payload stored outside", "let mut t = mk_thin(); let mut out: Option<&[u16]> = None; t.with_arc_mut(|a| { out = Some(a.slice()); }); touch(&out);", "let mut t = mk_thin(); let mut out: Option<usize> = None; t.with_arc_mut(|a| { out = Some(a.slice().len()); }); touch(&out);"),
    ("with_arc: reference into the payload stored outside", "let o = mk_off(); let mut out: Option<&String> = None; o.with_arc(|a| { out = Some(&**a); }); touch(&out);", "let o = mk_off(); let mut out: Option<usize> = None; o.with_arc(|a| { out = Some(a.len()); }); touch(&out);"),
    # ---- route: used after the owner is dropped or moved
    ("Deref reference used after the Arc is dropped", "let a = mk(); let r = &*a; drop(a); touch(r);", "let a = mk(); let r = &*a; touch(r); drop(a);"),
    ("ArcBorrow used after the Arc is dropped", "let a = mk(); let b = a.borrow_arc(); drop(a); touch(&*b);", "let a = mk(); let b = a.borrow_arc(); touch(&*b); drop(a);"),
    ("ArcBorrow::get reference used after the Arc is dropped", "let a = mk(); let r = a.borrow_arc().get(); drop(a); touch(r);", "let a = mk(); let r = a.borrow_arc().get(); touch(r); drop(a);"),
    ("ArcBorrow copy used after the Arc is moved into a conversion", "let a = mk(); let b = a.borrow_arc(); let c = b; let o = Arc::into_raw_offset(a); touch(&*c);", "let a = mk(); let b = a.borrow_arc(); let c = b; touch(&*c); let o = Arc::into_raw_offset(a);"),
    ("OffsetArc Deref reference used after it is dropped", "let o = mk_off(); let r = &*o; drop(o); touch(r);", "let o = mk_off(); let r = &*o; touch(r); drop(o);"),
    ("ArcUnion borrow used after the union is dropped", "let u = mk_union(); let b = u.borrow(); drop(u); touch(&b);", "let u = mk_union(); let b = u.borrow(); touch(&b); drop(u);"),
    ("ThinArc slice used after it is dropped", "let t = mk_thin(); let s = &t.slice; drop(t); touch(s);", "let t = mk_thin(); let s = &t.slice; touch(s); drop(t);"),
    ("get_mut reference used after the Arc is moved", "let mut a = mk(); let m = Arc::get_mut(&mut a).unwrap(); let b = a; m.push('x');", "let mut a = mk(); let m = Arc::get_mut(&mut a).unwrap(); m.push('x'); let b = a;"),
    ("UniqueArc reference used after shareable()", "let mut u = mk_unique(); let m = &mut *u; let a = u.shareable(); m.push('x');", "let mut u = mk_unique(); let m = &mut *u; m.push('x'); let a = u.shareable();"),
    ("try_unique: reference used after the Arc is consumed", "let a = mk(); let r = &*a; let u = Arc::try_unique(a); touch(r);", "let a = mk(); let r = &*a; touch(r); let u = Arc::try_unique(a);"),
    # ---- route: used after the owner is mutably reborrowed
    ("Deref reference alive across get_mut", "let mut a = mk(); let r = &*a; let m = Arc::get_mut(&mut a); touch(r);", "let mut a = mk(); let r = &*a; touch(r); let m = Arc::get_mut(&mut a);"),
    ("Deref reference alive across make_mut", "let mut a = mk(); let r = &*a; Arc::make_mut(&mut a).push('x'); touch(r);", "let mut a = mk(); let r = &*a; touch(r); Arc::make_mut(&mut a).push('x');"),
    ("ArcBorrow alive across make_mut", "let mut a = mk(); let b = a.borrow_arc(); Arc::make_mut(&mut a).push('x'); touch(&*b);", "let mut a = mk(); let b = a.borrow_arc(); touch(&*b); Arc::make_mut(&mut a).push('x');"),
    ("two get_mut references alive together", "let mut a = mk(); let m1 = Arc::get_mut(&mut a).unwrap(); let m2 = Arc::get_mut(&mut a).unwrap(); m1.push('x'); m2.push('y');", "let mut a = mk(); let m1 = Arc::get_mut(&mut a).unwrap(); m1.push('x'); let m2 = Arc::get_mut(&mut a).unwrap(); m2.push('y');"),
    ("make_mut reference alive across a clone of the same Arc", "let mut a = mk(); let m = Arc::make_mut(&mut a); let c = a.clone(); m.push('x');", "let mut a = mk(); let m = Arc::make_mut(&mut a); m.push('x'); let c = a.clone();"),
    ("get_unique reference alive across a clone of the same Arc", "let mut a = mk(); let u = Arc::get_unique(&mut a).unwrap(); let c = a.clone(); u.push('x');", "let mut a = mk(); let u = Arc::get_unique(&mut a).unwrap(); u.push('x'); let c = a.clone();"),
    ("ThinArc slice alive across with_arc_mut", "let mut t = mk_thin(); let s = &t.slice; t.with_arc_mut(|a| {}); touch(s);", "let mut t = mk_thin(); let s = &t.slice; touch(s); t.with_arc_mut(|a| {});"),
    ("OffsetArc Deref alive across OffsetArc::make_mut", "let mut o = mk_off(); let r = &*o; o.make_mut().push('x'); touch(r);", "let mut o = mk_off(); let r = &*o; touch(r); o.make_mut().push('x');"),
    ("UniqueArc: shared and mutable reference alive together", "let mut u = mk_unique(); let r = &*u; let m = &mut *u; m.push('x'); touch(r);", "let mut u = mk_unique(); let r = &*u; touch(r); let m = &mut *u; m.push('x');"),
    # ---- route: sent to a 'static thread
    ("Deref reference sent to a 'static thread", "let a = mk(); let r = &*a; std::thread::spawn(move || touch(r));", "let a = mk(); let c = a.clone(); std::thread::spawn(move || touch(&*c));"),
    ("ArcBorrow sent to a 'static thread", "let a = mk(); let b = a.borrow_arc(); std::thread::spawn(move || touch(&*b));", "let a = mk(); let c = a.borrow_arc().clone_arc(); std::thread::spawn(move || touch(&*c));"),
    ("ArcUnionBorrow sent to a 'static thread", "let u = mk_union(); let b = u.borrow(); std::thread::spawn(move || touch(&b));", "let u = mk_union(); let c = u.clone(); std::thread::spawn(move || touch(&c.borrow()));"),
    # ---- a handle cannot outlive data its payload borrows
    ("Arc of a reference returned past the referent", "SIG:-> Arc<&'static String>\nlet s = String::from(\"local\"); Arc::new(&s)", "SIG:-> usize\nlet s = String::from(\"local\"); let a = Arc::new(&s); a.len()"),
    ("Arc of a reference used after the referent is dropped", "let s = String::from(\"local\"); let a = Arc::new(&s); drop(s); touch(&**a);", "let s = String::from(\"local\"); let a = Arc::new(&s); touch(&**a); drop(a); drop(s);"),
    ("clone of an Arc of a reference outlives the referent", "let keep; { let s = String::from(\"local\"); let a = Arc::new(&s); keep = a.clone(); } touch(&**keep);", "let s = String::from(\"local\"); let keep; { let a = Arc::new(&s); keep = a.clone(); } touch(&**keep);"),
    ("ThinArc with borrowed elements outlives them", "let keep; { let s = String::from(\"local\"); keep = ThinArc::from_header_and_slice(1u8, &[&s]); } touch(&keep.slice);", "let s = String::from(\"local\"); let keep; { keep = ThinArc::from_header_and_slice(1u8, &[&s]); } touch(&keep.slice);"),
    ("UniqueArc of a reference sent to a 'static thread", "let s = String::from(\"local\"); let u = UniqueArc::new(&s); std::thread::spawn(move || touch(&**u));", "let s: &'static str = \"static\"; let u = UniqueArc::new(s); std::thread::spawn(move || touch(&**u));"),
    ("OffsetArc of a reference outlives the referent", "let keep; { let s = String::from(\"local\"); keep = Arc::into_raw_offset(Arc::new(&s)); } touch(&**keep);", "let s = String::from(\"local\"); let keep; { keep = Arc::into_raw_offset(Arc::new(&s)); } touch(&**keep);"),
    ("ArcUnion of a reference outlives the referent", "let keep: ArcUnion<&String, u8>; { let s = String::from(\"local\"); keep = ArcUnion::from_first(Arc::new(&s)); } touch(&keep.is_first());", "let s = String::from(\"local\"); let keep: ArcUnion<&String, u8>; { keep = ArcUnion::from_first(Arc::new(&s)); } touch(&keep.is_first());"),
]
LIFETIME_CODES = {"E0597", "E0505", "E0499", "E0502", "E0515", "E0521", "E0716", "E0373", "E0506", "E0503", "E0382", "E0713", "E0495", "E0310", "E0759", "E0621", "E0700", "E0596", "lifetime-may-not-live-long-enough"}


def gen_borrow(which):
    lines = BORROW_PRELUDE.rstrip("\n").split("\n")
    cells = []
    for i, (name, esc, ctl) in enumerate(ESCAPES):
        body = esc if which == "escape" else ctl
        sig = ""
        if body.startswith("SIG:"):
            first, body = body.split("\n", 1)
            sig = " " + first[4:]
        start = len(lines) + 1
        lines.append("pub fn cell_%d()%s {" % (i, sig))
        lines.append("    " + body)
        lines.append("}")
        cells.append({"name": name, "line_start": start, "line_end": len(lines), "accept": which != "escape"})
    return "\n".join(lines) + "\n", cells


# ---------------------------------------------------------------------------------------------- unsafe stays unsafe
UNSAFE_PRELUDE = '''#![allow(unused, dead_code, deprecated)]
use std::mem::MaybeUninit;
use triomphe::*;
'''
# (name, call expression given suitable locals) — every one of these constructs a handle or a borrow
# from something the caller must vouch for; safe code being able to call it breaks every lifetime /
# ownership guarantee of C13
UNSAFE_APIS = [
    ("Arc::from_raw", "let p: *const u32 = std::ptr::null(); let _a: Arc<u32> = {U} Arc::from_raw(p) {E};"),
    ("Arc::from_raw (unsized)", "let p: *const [u32] = &[1u32][..]; let _a: Arc<[u32]> = {U} Arc::from_raw(p) {E};"),
    ("Arc::from_raw_slice", "let p: *const [u32] = &[1u32][..]; let _a: Arc<[u32]> = {U} Arc::from_raw_slice(p) {E};"),
    ("ArcBorrow::from_ptr", "let p: *const u32 = std::ptr::null(); let _b: ArcBorrow<'static, u32> = {U} ArcBorrow::from_ptr(p) {E};"),
    ("ThinArc::from_raw", "let p: *const std::ffi::c_void = std::ptr::null(); let _t: ThinArc<u8, u16> = {U} ThinArc::from_raw(p) {E};"),
    ("Arc<MaybeUninit<T>>::assume_init", "let a: Arc<MaybeUninit<String>> = Arc::new_uninit(); let _s: Arc<String> = {U} a.assume_init() {E};"),
    ("Arc<[MaybeUninit<T>]>::assume_init", "let a: Arc<[MaybeUninit<String>]> = Arc::new_uninit_slice(2); let _s: Arc<[String]> = {U} a.assume_init() {E};"),
    ("UniqueArc::assume_init", "let u: UniqueArc<MaybeUninit<String>> = UniqueArc::new_uninit(); let _s: UniqueArc<String> = {U} UniqueArc::assume_init(u) {E};"),
    ("UniqueArc::assume_init_slice", "let u: UniqueArc<[MaybeUninit<String>]> = UniqueArc::new_uninit_slice(2); let _s: UniqueArc<[String]> = {U} UniqueArc::assume_init_slice(u) {E};"),
    ("UniqueArc::assume_init_slice_with_header", "let u: UniqueArc<HeaderSlice<u8, [MaybeUninit<String>]>> = UniqueArc::from_header_and_uninit_slice(1u8, 2); let _s: UniqueArc<HeaderSlice<u8, [String]>> = {U} u.assume_init_slice_with_header() {E};"),
]


def gen_unsafe(which):
    lines = UNSAFE_PRELUDE.rstrip("\n").split("\n")
    cells = []
    for i, (name, body) in enumerate(UNSAFE_APIS):
        b = body.replace("{U}", "unsafe {" if which == "control" else "").replace("{E}", "}" if which == "control" else "")
        start = len(lines) + 1
        lines.append("pub fn cell_%d() {" % i)
        lines.append("    " + b)
        lines.append("}")
        cells.append({"name": name, "line_start": start, "line_end": len(lines), "accept": which == "control"})
    return "\n".join(lines) + "\n", cells


# ---------------------------------------------------------------------------------------------- dropck eyepatch (nightly)
EYEPATCH_SRC = '''#![allow(unused, dead_code)]
use triomphe::*;
pub fn touch<T: ?Sized>(_: &T) {}
pub struct P<'a>(pub &'a String);
impl<'a> Drop for P<'a> { fn drop(&mut self) { touch(self.0) } }
'''
# with the unstable_dropck_eyepatch feature a handle may be declared before data its payload merely
# borrows (controls), but not if the payload's destructor looks at that data (escapes)
EYEPATCH = [
    ("Arc<P> declared before the data P's destructor reads", "let a; let s = String::new(); a = Arc::new(P(&s));", False),
    ("UniqueArc<P> declared before the data P's destructor reads", "let a; let s = String::new(); a = UniqueArc::new(P(&s));", False),
    ("Arc<[P]> declared before the data P's destructor reads", "let a: Arc<[P]>; let s = String::new(); a = Arc::from(vec![P(&s)]);", False),
    ("ThinArc<P,u8> declared before the data P's destructor reads", "let a; let s = String::new(); a = ThinArc::from_header_and_slice(P(&s), &[1u8]);", False),
    ("OffsetArc<P> declared before the data P's destructor reads", "let a; let s = String::new(); a = Arc::into_raw_offset(Arc::new(P(&s)));", False),
    ("control: Arc<&String> declared before the data (no destructor looks at it)", "let a; let s = String::new(); a = Arc::new(&s);", True),
    ("control: Arc<P> declared after the data", "let s = String::new(); let a = Arc::new(P(&s));", True),
]


def gen_eyepatch():
    lines = EYEPATCH_SRC.rstrip("\n").split("\n")
    cells = []
    for i, (name, body, accept) in enumerate(EYEPATCH):
        start = len(lines) + 1
        lines.append("pub fn cell_%d() {" % i)
        lines.append("    " + body)
        lines.append("}")
        cells.append({"name": name, "line_start": start, "line_end": len(lines), "accept": accept})
    return "\n".join(lines) + "\n", cells


def cargo_check(dirpath, name, src, env, toolchain=None, features=None):
    os.makedirs(os.path.join(dirpath, "src"), exist_ok=True)
    dep = 'triomphe = { path = "/repo" }' if not features else 'triomphe = { path = "/repo", features = [%s] }' % ", ".join('"%s"' % f for f in features)
    tomlp = os.path.join(dirpath, "Cargo.toml")
    toml_new = ('[package]\nname = "%s"\nversion = "0.0.0"\nedition = "2021"\n\n[dependencies]\n%s\n\n[workspace]\n' % (name, dep))
    if not os.path.exists(tomlp) or open(tomlp).read() != toml_new:
        open(tomlp, "w").write(toml_new)
    if os.path.exists("/repo/Cargo.lock") and not os.path.exists(os.path.join(dirpath, "Cargo.lock")):
        # same resolution as the repository itself
        open(os.path.join(dirpath, "Cargo.lock"), "w").write(open("/repo/Cargo.lock").read())
    libp = os.path.join(dirpath, "src", "lib.rs")
    if not os.path.exists(libp) or open(libp).read() != src:  # checks may run side by side: do not rewrite identical probes
        tmp = libp + ".%d.tmp" % os.getpid()
        open(tmp, "w").write(src)
        os.replace(tmp, libp)
    cmd = ["cargo"] + (["+" + toolchain] if toolchain else []) + ["check", "--offline", "--message-format=json", "--quiet"]
    p = subprocess.run(cmd, cwd=dirpath, env=env, stdout=subprocess.PIPE, stderr=subprocess.PIPE, text=True)
    diags = []
    for l in p.stdout.splitlines():
        try:
            j = json.loads(l)
        except ValueError:
            continue
        if j.get("reason") != "compiler-message" or j.get("target", {}).get("name") != name:
            continue
        m = j["message"]
        if m.get("level") != "error":
            continue
        code = (m.get("code") or {}).get("code")
        ls = [s["line_start"] for s in m.get("spans", []) if s.get("file_name", "").endswith("lib.rs")]
        if code is None and "lifetime may not live long enough" in m.get("message", ""):
            code = "lifetime-may-not-live-long-enough"  # a region error that rustc issues without a code
        diags.append({"code": code, "lines": ls, "msg": m.get("message", "")[:200]})
    return p.returncode, diags, p.stderr[-2000:]


def attribute(cells, diags):
    """cell index -> set of error codes; also returns diagnostics outside every cell"""
    per = {}
    stray = []
    for d in diags:
        hit = False
        for i, c in enumerate(cells):
            if any(c["line_start"] <= ln <= c["line_end"] for ln in d["lines"]):
                per.setdefault(i, set()).add(d["code"])
                hit = True
        if not hit:
            stray.append(d)
    return per, stray



# ---------------------------------------------------------------------------------------------- API obligations other than auto traits and lifetimes
# Signatures whose *bounds, receivers and by-value parameters* carry memory safety: loosening one
# changes nothing at run time and admits client programs that were rejected before. Each cell is
# owned by the property whose guarantee it protects; (owner, name, rejected body, control body, codes)
API_PRELUDE = BORROW_PRELUDE + """pub fn need_clone<T: ?Sized + Clone>() {}
pub fn need_copy<T: Copy>() {}
pub fn need_deref_mut<T: ?Sized + std::ops::DerefMut>() {}
pub struct NoClone(pub u8);
pub fn need_from<A, B: From<A>>() {}
"""
API_CELLS = [
    # bitwise-copying constructors must insist on Copy elements (a memcpy of owning elements duplicates them)
    ("C06", "Arc::from_header_and_slice accepts only Copy elements", "let v = vec![String::new()]; let _a = Arc::from_header_and_slice(1u8, &v[..]);", "let v = vec![1u16]; let _a = Arc::from_header_and_slice(1u8, &v[..]);", ["E0277"]),
    ("C06", "ThinArc::from_header_and_slice accepts only Copy elements", "let v = vec![String::new()]; let _a = ThinArc::from_header_and_slice(1u8, &v[..]);", "let v = vec![1u16]; let _a = ThinArc::from_header_and_slice(1u8, &v[..]);", ["E0277"]),
    ("C06", "Arc<[T]>: From<&[T]> accepts only Copy elements", "let v = vec![String::new()]; let _a = <Arc<[String]> as From<&[String]>>::from(&v[..]);", "let v = vec![1u16]; let _a = <Arc<[u16]> as From<&[u16]>>::from(&v[..]);", ["E0277"]),
    ("C06,C01", "Arc::from_header_and_slice accepts only Copy elements (Arc elements)", "let v = vec![mk()]; let _a = Arc::from_header_and_slice((), &v[..]);", "let v = vec![mk()]; let _a = Arc::from_header_and_iter((), v.iter().cloned());", ["E0277"]),
    # cloning needs Clone
    ("C08", "Arc::make_mut requires Clone", "let mut a = Arc::new(NoClone(1)); let _ = Arc::make_mut(&mut a);", "let mut a = mk(); let _ = Arc::make_mut(&mut a);", ["E0277", "E0599"]),
    ("C08", "Arc::make_unique requires Clone", "let mut a = Arc::new(NoClone(1)); let _ = Arc::make_unique(&mut a);", "let mut a = mk(); let _ = Arc::make_unique(&mut a);", ["E0277", "E0599"]),
    ("C08", "OffsetArc::make_mut requires Clone", "let mut o = Arc::into_raw_offset(Arc::new(NoClone(1))); let _ = o.make_mut();", "let mut o = mk_off(); let _ = o.make_mut();", ["E0277", "E0599"]),
    ("C09", "Arc::unwrap_or_clone requires Clone", "let a = Arc::new(NoClone(1)); let _ = Arc::unwrap_or_clone(a);", "let a = mk(); let _ = Arc::unwrap_or_clone(a);", ["E0277", "E0599"]),
    # a unique handle cannot be duplicated; shared handles give no mutable access by themselves
    ("C03,C09", "UniqueArc<T> is not Clone", "need_clone::<UniqueArc<String>>();", "need_clone::<Arc<String>>();", ["E0277"]),
    ("C03,C09", "UniqueArc<[T]> is not Clone", "need_clone::<UniqueArc<[u8]>>();", "need_clone::<Arc<[u8]>>();", ["E0277"]),
    ("C03,C09", "UniqueArc<T> is not Copy", "need_copy::<UniqueArc<u8>>();", "need_copy::<ArcBorrow<'static, u8>>();", ["E0277"]),
    ("C03", "Arc<T> is not DerefMut", "need_deref_mut::<Arc<String>>();", "need_deref_mut::<UniqueArc<String>>();", ["E0277"]),
    ("C03", "Arc<[T]> is not DerefMut", "need_deref_mut::<Arc<[u8]>>();", "need_deref_mut::<UniqueArc<[u8]>>();", ["E0277"]),
    ("C03", "OffsetArc<T> is not DerefMut", "need_deref_mut::<OffsetArc<String>>();", "need_deref_mut::<UniqueArc<String>>();", ["E0277"]),
    ("C03", "ThinArc<H,T> is not DerefMut", "need_deref_mut::<ThinArc<u8, u16>>();", "need_deref_mut::<UniqueArc<String>>();", ["E0277"]),
    ("C03", "ArcBorrow<T> is not DerefMut", "need_deref_mut::<ArcBorrow<'static, String>>();", "need_deref_mut::<UniqueArc<String>>();", ["E0277"]),
    ("C03", "Arc::get_mut needs exclusive access to the handle", "let a = mk(); let _ = Arc::get_mut(&a);", "let mut a = mk(); let _ = Arc::get_mut(&mut a);", ["E0308"]),
    ("C03", "Arc::get_unique needs exclusive access to the handle", "let a = mk(); let _ = Arc::get_unique(&a);", "let mut a = mk(); let _ = Arc::get_unique(&mut a);", ["E0308"]),
    ("C08", "Arc::make_mut needs exclusive access to the handle", "let a = mk(); let _ = Arc::make_mut(&a);", "let mut a = mk(); let _ = Arc::make_mut(&mut a);", ["E0308"]),
    ("C08", "OffsetArc::make_mut needs exclusive access to the handle", "let o = mk_off(); let _ = o.make_mut();", "let mut o = mk_off(); let _ = o.make_mut();", ["E0596"]),
    ("C10", "ThinArc::with_arc_mut needs exclusive access to the handle", "let t = mk_thin(); t.with_arc_mut(|_a| {});", "let mut t = mk_thin(); t.with_arc_mut(|_a| {});", ["E0596"]),
    ("C03", "mutation through a shared UniqueArc is rejected", "let u = mk_unique(); u.push('x');", "let mut u = mk_unique(); u.push('x');", ["E0596"]),
    ("C03,C09", "no infallible conversion from Arc to UniqueArc", "need_from::<Arc<String>, UniqueArc<String>>();", "need_from::<String, Arc<String>>();", ["E0277"]),
    # the pointer fields stay private: a client that can write them can forge any handle
    ("C01", "Arc's pointer field is private", "let a = mk(); let _ = a.p;", "let a = mk(); let _ = a.len();", ["E0616", "E0609"]),
    ("C01", "OffsetArc's pointer field is private", "let o = mk_off(); let _ = o.ptr;", "let o = mk_off(); let _ = o.len();", ["E0616", "E0609"]),
    ("C01", "ThinArc's pointer field is private", "let t = mk_thin(); let _ = t.ptr;", "let t = mk_thin(); let _ = t.slice.len();", ["E0616", "E0609"]),
    ("C01", "ArcUnion's pointer field is private", "let u = mk_union(); let _ = u.p;", "let u = mk_union(); let _ = u.is_first();", ["E0616", "E0609"]),
    ("C01", "ArcBorrow's pointer field is private", "let a = mk(); let b = a.borrow_arc(); let _ = b.0;", "let a = mk(); let b = a.borrow_arc(); let _ = b.len();", ["E0616", "E0609"]),
    ("C03", "UniqueArc's inner Arc is private", "let u = mk_unique(); let _ = &u.0;", "let u = mk_unique(); let _ = u.len();", ["E0616", "E0609"]),
    ("C10", "the protected header-slice's fields are private", "let mut t = mk_thin(); t.with_arc_mut(|a| { let _ = &a.inner; });", "let mut t = mk_thin(); t.with_arc_mut(|a| { let _ = a.length(); });", ["E0616", "E0609"]),
    # conversions and unwrapping consume the handle they are given (else one owner becomes two)
    ("C09", "Arc::try_unwrap consumes the handle", "let a = mk(); let _r = Arc::try_unwrap(a); touch(&a);", "let a = mk(); let _r = Arc::try_unwrap(a);", ["E0382"]),
    ("C09", "Arc::try_unique consumes the handle", "let a = mk(); let _r = Arc::try_unique(a); touch(&a);", "let a = mk(); let _r = Arc::try_unique(a);", ["E0382"]),
    ("C09", "Arc::unwrap_or_clone consumes the handle", "let a = mk(); let _r = Arc::unwrap_or_clone(a); touch(&a);", "let a = mk(); let _r = Arc::unwrap_or_clone(a);", ["E0382"]),
    ("C09", "UniqueArc::into_inner consumes the handle", "let u = mk_unique(); let _r = UniqueArc::into_inner(u); touch(&u);", "let u = mk_unique(); let _r = UniqueArc::into_inner(u);", ["E0382"]),
    ("C04", "UniqueArc::shareable consumes the handle", "let u = mk_unique(); let _a = u.shareable(); touch(&u);", "let u = mk_unique(); let _a = u.shareable();", ["E0382"]),
    ("C04", "Arc::into_raw consumes the handle", "let a = mk(); let p = Arc::into_raw(a); touch(&a); unsafe { drop(Arc::from_raw(p)) };", "let a = mk(); let p = Arc::into_raw(a); unsafe { drop(Arc::from_raw(p)) };", ["E0382"]),
    ("C04", "Arc::into_raw_offset consumes the handle", "let a = mk(); let _o = Arc::into_raw_offset(a); touch(&a);", "let a = mk(); let _o = Arc::into_raw_offset(a);", ["E0382"]),
    ("C04", "Arc::from_raw_offset consumes the handle", "let o = mk_off(); let _a = Arc::from_raw_offset(o); touch(&o);", "let o = mk_off(); let _a = Arc::from_raw_offset(o);", ["E0382"]),
    ("C04", "Arc::into_thin consumes the handle", "let a = Arc::from_thin(mk_thin()); let _t = Arc::into_thin(a); touch(&a);", "let a = Arc::from_thin(mk_thin()); let _t = Arc::into_thin(a);", ["E0382"]),
    ("C04", "Arc::from_thin consumes the handle", "let t = mk_thin(); let _a = Arc::from_thin(t); touch(&t);", "let t = mk_thin(); let _a = Arc::from_thin(t);", ["E0382"]),
    ("C04", "ThinArc::into_raw consumes the handle", "let t = mk_thin(); let p = ThinArc::into_raw(t); touch(&t); unsafe { drop(ThinArc::<u8, u16>::from_raw(p)) };", "let t = mk_thin(); let p = ThinArc::into_raw(t); unsafe { drop(ThinArc::<u8, u16>::from_raw(p)) };", ["E0382"]),
    ("C12", "ArcUnion::from_first consumes the Arc", "let a = mk(); let _u: ArcUnion<String, u8> = ArcUnion::from_first(a); touch(&a);", "let a = mk(); let _u: ArcUnion<String, u8> = ArcUnion::from_first(a);", ["E0382"]),
    ("C12", "ArcUnion::from_second consumes the Arc", "let a = mk(); let _u: ArcUnion<u8, String> = ArcUnion::from_second(a); touch(&a);", "let a = mk(); let _u: ArcUnion<u8, String> = ArcUnion::from_second(a);", ["E0382"]),
    ("C15", "UniqueArc::assume_init consumes the handle", "let mut u: UniqueArc<std::mem::MaybeUninit<u8>> = UniqueArc::new_uninit(); u.write(1); let _i = unsafe { UniqueArc::assume_init(u) }; touch(&u);", "let mut u: UniqueArc<std::mem::MaybeUninit<u8>> = UniqueArc::new_uninit(); u.write(1); let _i = unsafe { UniqueArc::assume_init(u) };", ["E0382"]),
]


def gen_api(which):
    lines = API_PRELUDE.rstrip("\n").split("\n")
    cells = []
    for i, (owner, name, rej, ctl, codes) in enumerate(API_CELLS):
        start = len(lines) + 1
        lines.append("pub fn cell_%d() {" % i)
        lines.append("    " + (rej if which == "reject" else ctl))
        lines.append("}")
        cells.append({"name": name, "owner": owner, "codes": codes, "line_start": start, "line_end": len(lines), "accept": which != "reject"})
    return "\n".join(lines) + "\n", cells



# ---- second stage for obligations that a *correct* generalisation could lift (deep-cloning
# UniqueArc::clone, element-wise cloning slice constructors, a copy-on-write DerefMut): when such a
# cell compiles, the program below is built and run; only wrong behaviour is a violation.
STAGE2_PRELUDE = """#![allow(unused, dead_code, deprecated)]
extern crate triomphe;
use std::cell::RefCell;
use triomphe::*;
thread_local! { static LOG: RefCell<Vec<(char, u32, u32)>> = RefCell::new(Vec::new()); static NEXT: std::cell::Cell<u32> = std::cell::Cell::new(1); }
pub struct E(pub u32, pub u32);
impl E { pub fn new() -> E { let id = NEXT.with(|n| n.replace(n.get() + 1)); E(id, 7) } }
impl Clone for E { fn clone(&self) -> E { let mut e = E::new(); e.1 = self.1; LOG.with(|l| l.borrow_mut().push(('c', self.0, e.0))); e } }
impl Drop for E { fn drop(&mut self) { LOG.with(|l| l.borrow_mut().push(('d', self.0, 0))); } }
fn drops() -> Vec<u32> { LOG.with(|l| l.borrow().iter().filter(|e| e.0 == 'd').map(|e| e.1).collect()) }
fn clones() -> Vec<(u32, u32)> { LOG.with(|l| l.borrow().iter().filter(|e| e.0 == 'c').map(|e| (e.1, e.2)).collect()) }
fn fail(m: &str) -> ! { println!("STAGE2-FAIL {}", m); std::process::exit(1) }
fn check_cloned_slice(src: &[E], got: &[E]) {
    if got.len() != src.len() { fail("length differs") }
    let cl = clones();
    for (s, g) in src.iter().zip(got.iter()) {
        if g.0 == s.0 || !cl.contains(&(s.0, g.0)) || g.1 != s.1 { fail("an element of the handle is not a clone of the corresponding input element (bitwise copy of an owning value?)") }
    }
    if cl.len() != src.len() { fail("number of Clone calls differs from the number of elements") }
}
fn finish(total: u32) {
    let mut d = drops(); d.sort();
    let want: Vec<u32> = (1..=total).collect();
    if d != want { fail(&format!("every value must be destroyed exactly once: created 1..={}, destructor log {:?}", total, d)) }
    println!("STAGE2-OK");
}
"""
STAGE2 = {
    "Arc::from_header_and_slice accepts only Copy elements": "let v = vec![E::new(), E::new(), E::new()]; let a = Arc::from_header_and_slice(1u8, &v[..]); check_cloned_slice(&v, &a.slice); if !drops().is_empty() { fail(\"something was destroyed during construction\") } drop(a); if drops().len() != 3 { fail(\"releasing the handle must destroy its three clones\") } drop(v); finish(6);",
    "ThinArc::from_header_and_slice accepts only Copy elements": "let v = vec![E::new(), E::new(), E::new()]; let a = ThinArc::from_header_and_slice(1u8, &v[..]); check_cloned_slice(&v, &a.slice); drop(a); if drops().len() != 3 { fail(\"releasing the handle must destroy its three clones\") } drop(v); finish(6);",
    "Arc<[T]>: From<&[T]> accepts only Copy elements": "let v = vec![E::new(), E::new(), E::new()]; let a = <Arc<[E]> as From<&[E]>>::from(&v[..]); check_cloned_slice(&v, &a); drop(a); if drops().len() != 3 { fail(\"releasing the handle must destroy its three clones\") } drop(v); finish(6);",
    "Arc::from_header_and_slice accepts only Copy elements (Arc elements)": "let x = Arc::new(E::new()); let v = vec![x.clone(), x.clone()]; let a = Arc::from_header_and_slice((), &v[..]); if Arc::count(&x) != 5 { fail(\"two more handles to x exist, its count did not follow\") } drop(a); drop(v); if Arc::count(&x) != 1 || !drops().is_empty() { fail(\"count or lifetime of x wrong after the copies are gone\") } drop(x); finish(1);",
    "UniqueArc<T> is not Clone": "let mut u = UniqueArc::new(E::new()); let mut c = Clone::clone(&u); if (&*u as *const E) == (&*c as *const E) || u.0 == c.0 { fail(\"a cloned UniqueArc shares the value with the original: two unique handles own one value\") } u.1 = 1; c.1 = 2; if u.1 != 1 || c.1 != 2 { fail(\"writes through the two handles interfere\") } let a = u.shareable(); let b = c.shareable(); if Arc::count(&a) != 1 || Arc::count(&b) != 1 { fail(\"counts\") } drop(a); drop(b); finish(2);",
    "UniqueArc<[T]> is not Clone": "fail(\"UniqueArc<[u8]> became Clone; no behavioural check is written for it\")",
    "UniqueArc<T> is not Copy": "fail(\"a Copy unique handle is two owners of one value\")",
    "no infallible conversion from Arc to UniqueArc": "let a = Arc::new(E::new()); let b = a.clone(); let mut u: UniqueArc<E> = From::from(a); u.1 = 99; if b.1 != 7 || (&*u as *const E) == (&*b as *const E) { fail(\"the UniqueArc made from a shared Arc aliases the other owner\") } if Arc::count(&b) != 1 { fail(\"count of the remaining owner\") } drop(u); drop(b); finish(2);",
    "Arc<T> is not DerefMut": "let mut a = Arc::new(String::from(\"x\")); let b = a.clone(); std::ops::DerefMut::deref_mut(&mut a).push('y'); if &*b != \"x\" || &*a != \"xy\" || Arc::count(&b) != 1 { fail(\"mutation through a shared Arc is visible to the co-owner\") } println!(\"STAGE2-OK\");",
    "OffsetArc<T> is not DerefMut": "let mut a = Arc::into_raw_offset(Arc::new(String::from(\"x\"))); let b = a.clone(); std::ops::DerefMut::deref_mut(&mut a).push('y'); if &*b != \"x\" || &*a != \"xy\" { fail(\"mutation through a shared OffsetArc is visible to the co-owner\") } println!(\"STAGE2-OK\");",
}


def run_stage2(build_dir, env, idx, name):
    """Build and run the behavioural program of an obligation that was lifted. Returns None (behaves) or a message."""
    if name not in STAGE2:
        return "no behavioural check exists for a lifted `%s`" % name
    d = os.path.join(build_dir, "probe_stage2_%d" % idx)
    os.makedirs(os.path.join(d, "src"), exist_ok=True)
    open(os.path.join(d, "Cargo.toml"), "w").write('[package]\nname = "probe_stage2_%d"\nversion = "0.0.0"\nedition = "2021"\n\n[dependencies]\ntriomphe = { path = "/repo" }\n\n[workspace]\n' % idx)
    if os.path.exists("/repo/Cargo.lock"):
        open(os.path.join(d, "Cargo.lock"), "w").write(open("/repo/Cargo.lock").read())
    open(os.path.join(d, "src", "main.rs"), "w").write(STAGE2_PRELUDE + "fn main() {\n    " + STAGE2[name] + "\n}\n")
    p = subprocess.run(["cargo", "run", "--offline", "--quiet"], cwd=d, env=env, stdout=subprocess.PIPE, stderr=subprocess.PIPE, text=True)
    if "STAGE2-OK" in p.stdout and p.returncode == 0:
        return None
    fl = [l for l in p.stdout.splitlines() if l.startswith("STAGE2-FAIL")]
    if fl:
        return fl[0][12:]
    return "the behavioural program for the lifted obligation did not build or crashed (rc %d): %s" % (p.returncode, (p.stderr or "")[-400:])


def run_api(build_dir, env):
    """The API-obligation matrix. Returns dict(evaluations, distinct, violations (each with 'owner'), samples, detail)."""
    src, cells = gen_api("control")
    rc, diags, err = cargo_check(os.path.join(build_dir, "probe_api_control"), "probe_api_control", src, env)
    if diags or rc != 0:
        return {"machinery": "probe_api_control: the positive controls do not compile, the rejected cells prove nothing: %s %s" % (diags[:3], err[-800:])}
    src, cells = gen_api("reject")
    rc, diags, err = cargo_check(os.path.join(build_dir, "probe_api"), "probe_api", src, env)
    per, stray = attribute(cells, diags)
    if stray or (rc != 0 and not diags):
        return {"machinery": "probe_api: unexpected compiler output: %s %s" % (stray[:3], err[-500:])}
    violations = []
    lifted = []
    for i, c in enumerate(cells):
        got = per.get(i, set())
        if got and not (got & set(c["codes"])):
            return {"machinery": "probe_api: cell `%s` is rejected for another reason than the one it tests (%s, expected one of %s): the probe is wrong or the API changed" % (c["name"], sorted(got), c["codes"])}
        if not got:
            why = run_stage2(build_dir, env, i, c["name"]) if c["name"] in STAGE2 else "safe client code that must be rejected compiles"
            if why is None:
                lifted.append(c["name"])  # the obligation was lifted by a change that behaves correctly
                continue
            violations.append({"code": "api-obligation-dropped", "owner": c["owner"], "case": c["name"], "op": c["name"], "msg": "%s: %s" % (c["name"], why)})
    return {"evaluations": 2 * len(cells), "distinct": len(cells), "violations": violations, "samples": [cells[0]["name"] + " -> rejected " + ",".join(sorted(per.get(0, [])))], "detail": {"api_cells": len(cells), "api_controls": len(cells), "obligations_lifted_but_behaving": lifted, "owners": sorted({o for c in cells for o in c["owner"].split(",")})}}


def run(build_dir, env):
    """Returns dict(evaluations, distinct, violations, samples, detail)."""
    violations = []
    detail = {}
    samples = []
    evaluations = 0
    classes = set()
    # ---- matrix 1
    src, cells = gen_auto()
    rc, diags, err = cargo_check(os.path.join(build_dir, "probe_auto"), "probe_auto", src, env)
    per, stray = attribute(cells, diags)
    bad_codes = [d for d in diags if d["code"] != "E0277"]
    if bad_codes or stray or (rc != 0 and not diags):
        return {"machinery": "probe_auto: unexpected compiler output: %s %s %s" % (bad_codes[:3], stray[:3], err[-500:])}
    for i, c in enumerate(cells):
        evaluations += 1
        rejected = i in per
        classes.add(("auto", c["name"].split(":")[0].split(" with ")[0], c["accept"]))
        if rejected == c["accept"]:
            violations.append({"code": "auto-trait:" + ("wrongly-accepted" if c["accept"] is False else "wrongly-rejected"), "case": c["name"], "op": c["name"], "msg": "the compiler %s `%s`, the property says it must be %s" % ("rejects" if rejected else "accepts", c["name"], "accepted" if c["accept"] else "rejected")})
    detail["auto_trait_cells"] = len(cells)
    detail["auto_trait_rejected"] = len(per)
    samples += [cells[0]["name"] + " -> accepted", [c for c in cells if not c["accept"]][0]["name"] + " -> rejected (E0277)"]
    # ---- matrix 2: escapes must be rejected by the borrow checker, each in its own function
    src, cells = gen_borrow("escape")
    rc, diags, err = cargo_check(os.path.join(build_dir, "probe_escape"), "probe_escape", src, env)
    per, stray = attribute(cells, diags)
    other = [d for d in diags if d["code"] not in LIFETIME_CODES]
    if other or stray:
        return {"machinery": "probe_escape: errors that are not lifetime errors (the probe itself is wrong or the API changed): %s %s" % (other[:3], stray[:3])}
    for i, c in enumerate(cells):
        evaluations += 1
        classes.add(("escape", c["name"]))
        if i not in per:
            violations.append({"code": "borrow-escape-accepted", "case": c["name"], "op": c["name"], "msg": "safe code that lets a borrow escape compiles: " + c["name"]})
    detail["escape_cells"] = len(cells)
    detail["escape_error_codes"] = sorted({code for s in per.values() for code in s})
    samples.append(cells[0]["name"] + " -> rejected " + ",".join(sorted(per.get(0, []))))
    # ---- positive controls: the same code without the escape compiles clean
    src, cells = gen_borrow("control")
    rc, diags, err = cargo_check(os.path.join(build_dir, "probe_control"), "probe_control", src, env)
    if diags or rc != 0:
        return {"machinery": "probe_control: the positive controls do not compile, the escape probes prove nothing: %s %s" % (diags[:3], err[-800:])}
    evaluations += len(cells)
    detail["control_cells"] = len(cells)
    # ---- matrix 3: the unsafe constructors stay unsafe (calling one from safe code is E0133), controls compile
    src, cells = gen_unsafe("bare")
    rc, diags, err = cargo_check(os.path.join(build_dir, "probe_unsafe"), "probe_unsafe", src, env)
    per, stray = attribute(cells, diags)
    other = [d for d in diags if d["code"] != "E0133"]
    if other or stray:
        return {"machinery": "probe_unsafe: errors other than E0133: %s %s" % (other[:3], stray[:3])}
    for i, c in enumerate(cells):
        evaluations += 1
        classes.add(("unsafe", c["name"]))
        if i not in per:
            violations.append({"code": "unsafe-api-callable-from-safe-code", "case": c["name"], "op": c["name"], "msg": "%s can be called without an unsafe block: safe code can forge handles and borrows" % c["name"]})
    src, cells = gen_unsafe("control")
    rc, diags, err = cargo_check(os.path.join(build_dir, "probe_unsafe_control"), "probe_unsafe_control", src, env)
    if diags or rc != 0:
        return {"machinery": "probe_unsafe_control does not compile: %s %s" % (diags[:3], err[-600:])}
    evaluations += len(cells)
    detail["unsafe_api_cells"] = len(cells)
    # ---- matrix 4 (nightly, feature unstable_dropck_eyepatch): may_dangle must not let a payload's destructor see dead data
    src, cells = gen_eyepatch()
    envn = dict(env, CARGO_TARGET_DIR=env["CARGO_TARGET_DIR"] + "-nightly")
    rc, diags, err = cargo_check(os.path.join(build_dir, "probe_eyepatch"), "probe_eyepatch", src, envn, toolchain="nightly", features=["unstable_dropck_eyepatch"])
    per, stray = attribute(cells, diags)
    other = [d for d in diags if d["code"] not in LIFETIME_CODES]
    if other or stray or (rc != 0 and not diags):
        return {"machinery": "probe_eyepatch (nightly): unexpected compiler output: %s %s %s" % (other[:3], stray[:3], err[-600:])}
    for i, c in enumerate(cells):
        evaluations += 1
        classes.add(("eyepatch", c["name"]))
        rejected = i in per
        if rejected == c["accept"]:
            violations.append({"code": "dropck-eyepatch:" + ("wrongly-accepted" if not c["accept"] else "wrongly-rejected"), "case": c["name"], "op": c["name"], "msg": "with the unstable_dropck_eyepatch feature (nightly) the compiler %s: %s" % ("rejects" if rejected else "accepts", c["name"])})
    detail["eyepatch_cells"] = len(cells)
    return {"evaluations": evaluations, "distinct": len(classes), "violations": violations, "samples": samples, "detail": detail}
