#!/bin/sh
# nsrun.sh <patch.diff> <check id>...   run checks against a patched CLONE of /repo mounted over /repo in a
# private mount namespace (real /repo, /verif/.build and /verif/evidence are not touched)
patch=$(readlink -f "$1"); shift
test -d /tmp/repons2/.git || git clone -q /repo /tmp/repons2
git -C /tmp/repons2 checkout -q -- . && git -C /tmp/repons2 pull -q 2>/dev/null
exec unshare -m sh -c "mount --bind /tmp/repons2 /repo && cd /verif && export VERIF_BUILD_DIR=/verif/.build-ns2 VERIF_EVIDENCE_DIR=/verif/.build-ns2/evidence VERIF_REPLAYS_DIR=/verif/.build-ns2/replays && git -C /repo apply $patch && for id in $*; do ./check \$id > /verif/.build-ns2/out.\$id 2>/verif/.build-ns2/err.\$id; echo \"\$id rc=\$? \$(grep -c ^VIOLATION /verif/.build-ns2/out.\$id) violation(s): \$(grep -A1 ^VIOLATION /verif/.build-ns2/err.\$id /verif/.build-ns2/out.\$id | grep -v VIOLATION | head -2 | cut -c1-260)\"; grep MACHINERY /verif/.build-ns2/err.\$id | head -2; done; git -C /repo checkout -- ."
