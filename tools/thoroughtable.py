#!/usr/bin/env python3
"""thoroughtable.py <log of tools/thorough_all.sh>  -> markdown rows (id | wall | counts) for DESIGN §13"""
import re, sys, ast
lines = open(sys.argv[1]).read().splitlines()
for i, l in enumerate(lines):
    m = re.match(r"^(C\d\d) rc=(\d+) (\d+)s", l)
    if not m:
        continue
    d = ast.literal_eval(lines[i + 1].strip())
    parts = []
    for k, name in (("states", "states"), ("transitions", "transitions"), ("evaluations", "evaluations"), ("distinct_nontrivial", "distinct")):
        if d.get(k):
            parts.append("{:,} {}".format(d[k], name))
    print("| %s | %s | %s s | %s | %s |" % (m.group(1), "exit " + m.group(2), "{:,}".format(int(m.group(3))), "; ".join(parts), "exhaustive" if d.get("exhaustive") and not d.get("caps_hit") else "CAPPED %s" % d.get("caps_hit")))
