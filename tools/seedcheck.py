#!/usr/bin/env python3
"""seedcheck.py <PROP> <N> [--checks C01,C02,...]

Validate a seeded change produced by a sub-agent in /tmp/seedwt/<PROP>/seed/<N>/ and run the
checks against it:
  1. in a scratch worktree (/tmp/seedverify): the repository's own tests pass with the patch;
     the demonstration fails with the patch and passes without it;
  2. apply the patch to /repo, run the checks (all by default), undo;
  3. store patch, demo and meta.json under /verif/seeded/<PROP>-<N>/.
"""
import os as _os, sys as _sys
if not _os.environ.get("VERIF_BUILD_DIR") and "--real-repo" not in _sys.argv:
    _sys.exit("refusing to patch /repo itself: run inside the private mount namespace (VERIF_BUILD_DIR set, see tools/nsrun.sh / DESIGN §12) or pass --real-repo")

import concurrent.futures as cf
import json
import os
import shutil
import subprocess
import sys
import time

prop, n = sys.argv[1], sys.argv[2]
only = None
if "--checks" in sys.argv:
    only = sys.argv[sys.argv.index("--checks") + 1].split(",")
src = "/tmp/seedwt/%s/seed/%s" % (prop, n)
if not os.path.exists(src):
    src = "/verif/seeded/%s-%s" % (prop, n)  # already archived: re-validate from the archive
patch = os.path.join(src, "patch.diff")
demo = os.path.join(src, "demo.rs")
VW = os.environ.get("SEEDVW", "/tmp/seedverify")
ENV = dict(os.environ, CARGO_NET_OFFLINE="true", CARGO_TARGET_DIR=VW + "/target")


def sh(cmd, cwd=None, timeout=1800):
    p = subprocess.run(cmd, shell=True, cwd=cwd, env=ENV, stdout=subprocess.PIPE, stderr=subprocess.STDOUT, text=True, timeout=timeout)
    return p.returncode, p.stdout


meta = {"property": prop.rstrip("bcdef"), "round": 9 if prop.endswith("f") else 5 if prop.endswith("e") else 4 if prop.endswith("d") else 3 if prop.endswith("c") else (2 if prop.endswith("b") else 1), "seed": n, "source": "independent sub-agent given only the property text", "at": time.strftime("%Y-%m-%d %H:%M:%S")}
assert subprocess.run("git -C /repo status --porcelain --untracked-files=no", shell=True, stdout=subprocess.PIPE, text=True).stdout.strip() == "", "repo dirty"

# ---- 1. scratch worktree
if not os.path.exists(VW):
    sh("git -C /repo worktree add -q --detach %s HEAD" % VW)
sh("git checkout -q --detach %s && git checkout -- . && git clean -fdq -e target" % subprocess.run("git -C /repo rev-parse HEAD", shell=True, stdout=subprocess.PIPE, text=True).stdout.strip(), cwd=VW)
os.makedirs(VW + "/tests", exist_ok=True)
# the demo is an integration test unless it has a main()
demo_src = open(demo).read()
is_example = "fn main()" in demo_src and "#[test]" not in demo_src
if is_example:
    os.makedirs(VW + "/examples", exist_ok=True)
    shutil.copy(demo, VW + "/examples/seed_demo.rs")
    demo_cmd = "cargo run --offline --example seed_demo"
    if prop.startswith("C13"):
        demo_cmd = "cargo build --offline --example seed_demo"
else:
    shutil.copy(demo, VW + "/tests/seed_demo.rs")
    demo_cmd = "cargo test --offline --test seed_demo"
# some demos need features (unsize / arc-swap)
feat = ""
if "arc_swap" in demo_src or "unsize" in demo_src:
    feat = " --features unsize,arc-swap"
readme = open(src + "/README.md").read() if os.path.exists(src + "/README.md") else ""
if "--no-default-features" in readme:
    feat = " --no-default-features"  # the change only shows in a no_std build of the crate
if "--release" in readme and "cargo test --offline --release" in readme and os.environ.get("SEEDRELEASE", "1") == "1":
    demo_cmd += " --release"  # the demonstration only fails without debug assertions
if "SEEDFEAT" in os.environ:
    feat = os.environ["SEEDFEAT"]  # the heuristics above guessed wrong for this seed
rc0, out0 = sh(demo_cmd + feat, cwd=VW)
meta["demo_without_patch"] = {"cmd": demo_cmd + feat, "rc": rc0, "tail": out0[-600:]}
rc, out = sh("git apply %s" % patch, cwd=VW)
if rc != 0:
    print("PATCH DOES NOT APPLY", out)
    sys.exit(2)
rc1, out1 = sh("cargo test --offline --lib" + feat, cwd=VW)
rc2, out2 = sh("cargo test --offline --doc" + feat, cwd=VW)
meta["repo_tests_with_patch"] = {"lib_rc": rc1, "doc_rc": rc2, "lib": [l for l in out1.splitlines() if "test result" in l], "doc": [l for l in out2.splitlines() if "test result" in l]}
rc3, out3 = sh(demo_cmd + feat, cwd=VW)
meta["demo_with_patch"] = {"cmd": demo_cmd + feat, "rc": rc3, "tail": out3[-1200:]}
if rc3 == 0 and not is_example:
    # pure memory-ordering changes do not show natively on x86: decide the demonstration under miri
    mcmd = "MIRIFLAGS='-Zmiri-disable-isolation -Zmiri-ignore-leaks' cargo +nightly miri test --offline --test seed_demo" + feat
    rc3, out3 = sh(mcmd, cwd=VW, timeout=1500)
    meta["demo_with_patch_miri"] = {"cmd": mcmd, "rc": rc3, "tail": out3[-1500:]}
    sh("git checkout -- src", cwd=VW)
    rcm, outm = sh(mcmd, cwd=VW, timeout=1500)
    meta["demo_without_patch_miri"] = {"cmd": mcmd, "rc": rcm, "tail": outm[-600:]}
    sh("git apply %s" % patch, cwd=VW)
    if rcm != 0:
        rc3 = 0  # fails under miri even without the change: not a demonstration
sh("git checkout -- . && git clean -fdq -e target", cwd=VW)
valid = rc0 == 0 and rc1 == 0 and rc2 == 0 and rc3 != 0
if prop.startswith("C13"):
    # type-level property: the demonstration is a client program that must NOT compile on a correct
    # tree and does compile (and misbehaves) with the change
    valid = rc0 != 0 and rc1 == 0 and rc2 == 0 and ("error[E" in out0) and ("error[E" not in out3)
meta["valid"] = valid
print("valid=%s  demo without patch rc=%d, repo tests with patch lib=%d doc=%d, demo with patch rc=%d" % (valid, rc0, rc1, rc2, rc3))

# ---- 2. run the checks against it
checks = only or [c["property_id"] for c in json.load(open("/verif/MANIFEST.json"))["checks"]]
subprocess.run(["git", "-C", "/repo", "apply", patch], check=True)
results = {}
try:
    # build once, sequentially (the checks share target directories)
    subprocess.run(["/verif/check", "--setup"], cwd="/verif", stdout=subprocess.PIPE, stderr=subprocess.PIPE)

    def one(cid):
        t = time.time()
        p = subprocess.run(["/verif/check", cid], cwd="/verif", stdout=subprocess.PIPE, stderr=subprocess.PIPE, text=True)
        lines = [l for l in p.stdout.splitlines() if l.startswith("VIOLATION")]
        first = [l.strip() for l in p.stderr.splitlines() if l.startswith("  ")][:2]
        mach = [l for l in p.stderr.splitlines() if "MACHINERY" in l]
        return cid, {"rc": p.returncode, "violations": len(lines), "first": first, "machinery": mach[:1], "s": round(time.time() - t, 1)}

    with cf.ThreadPoolExecutor(max_workers=4) as ex:
        for cid, r in ex.map(one, checks):
            results[cid] = r
finally:
    subprocess.run(["git", "-C", "/repo", "checkout", "--", "."], check=True)
meta["checks"] = results
caught = sorted(c for c, r in results.items() if r["rc"] == 1)
meta["caught_by"] = caught
own = prop.rstrip("bcdef")
meta["own_check_catches"] = own in caught
print("caught by:", caught, " own check catches:", own in caught)
for c, r in sorted(results.items()):
    if r["rc"] != 0:
        print("  %s rc=%d %s %s" % (c, r["rc"], r["first"][:1], r["machinery"]))

# ---- 3. store
dst = "/verif/seeded/%s-%s" % (prop, n)
os.makedirs(dst, exist_ok=True)
if os.path.abspath(src) != os.path.abspath(dst):
    shutil.copy(patch, dst + "/patch.diff")
    shutil.copy(demo, dst + "/demo.rs")
    if os.path.exists(src + "/README.md"):
        shutil.copy(src + "/README.md", dst + "/README.md")
if os.path.exists(dst + "/README.md"):
    meta["needs_to_manifest"] = "see README.md (written by the sub-agent)"
json.dump(meta, open(dst + "/meta.json", "w"), indent=1)
