#!/usr/bin/env python3
"""Regenerate the seeded-change table inside DESIGN.md from /verif/seeded/*/meta.json."""
import subprocess, re
t = subprocess.run(["/verif/tools/seedtable.py"], stdout=subprocess.PIPE, text=True).stdout
d = open("/verif/DESIGN.md").read()
d = re.sub(r"<!-- SEEDTABLE-BEGIN -->.*?<!-- SEEDTABLE-END -->", "<!-- SEEDTABLE-BEGIN -->\n" + t.replace("\\", "\\\\") + "<!-- SEEDTABLE-END -->", d, flags=re.S)
open("/verif/DESIGN.md", "w").write(d)
print("ok")
