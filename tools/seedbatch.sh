#!/bin/sh
# seedbatch.sh C01:2 C03:1 ...   (sequential; results appended to /verif/seeded/batch.log)
for x in "$@"; do
  p=${x%%:*}; n=${x##*:}
  echo "=== $p-$n $(date +%H:%M:%S)" >> /verif/seeded/batch.log
  /verif/tools/seedcheck.py $p $n >> /verif/seeded/batch.log 2>&1
done
echo "BATCH DONE $(date +%H:%M:%S)" >> /verif/seeded/batch.log
