#!/usr/bin/env python3
"""mkmut.py <name> <file> <<< 'old\n=====\nnew'  : create /verif/mutants/<name>.diff by replacing text in /repo/<file> (repo left clean)."""
import sys, subprocess
name, path = sys.argv[1], sys.argv[2]
old, new = sys.stdin.read().split("\n=====\n")
new = new.rstrip("\n")
old = old.strip("\n")
full = "/repo/" + path
s = open(full).read()
assert s.count(old) == 1, "old text occurs %d times" % s.count(old)
open(full, "w").write(s.replace(old, new))
d = subprocess.run(["git", "-C", "/repo", "diff"], stdout=subprocess.PIPE, text=True).stdout
open("/verif/mutants/%s.diff" % name, "w").write(d)
subprocess.run(["git", "-C", "/repo", "checkout", "--", "."], check=True)
print(d)
