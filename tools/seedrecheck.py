#!/usr/bin/env python3
"""seedrecheck.py [names...]  — run inside the private namespace (see tools/seedrecheck.sh).
For every archived seed: apply its patch to /repo (the mounted clone), run the checks that reported it
when it was validated (and its own property's check), record what reports it NOW in meta.json
(`recheck`), undo. A seed that was reported before and is not now is printed as LOST."""
import os as _os, sys as _sys
if not _os.environ.get("VERIF_BUILD_DIR") and "--real-repo" not in _sys.argv:
    _sys.exit("refusing to patch /repo itself: run inside the private mount namespace (VERIF_BUILD_DIR set, see tools/nsrun.sh / DESIGN §12) or pass --real-repo")

import glob, json, os, subprocess, sys, time
names = [a for a in sys.argv[1:] if not a.startswith("--")] or sorted(os.path.basename(os.path.dirname(p)) for p in glob.glob("/verif/seeded/*/meta.json"))
for n in names:
    d = "/verif/seeded/" + n
    meta = json.load(open(d + "/meta.json"))
    own = meta.get("property") or n[:3]
    if "recheck" in meta and "--again" not in sys.argv:
        continue
    cb = meta.get("caught_by", [])
    ids = [own] if (own in cb or not cb) else [own, cb[0]]
    if n in ("C05c-1",):
        ids = ["C05"]
    subprocess.run(["git", "-C", "/repo", "checkout", "-q", "--", "."], check=True)
    ap = subprocess.run(["git", "-C", "/repo", "apply", d + "/patch.diff"], stderr=subprocess.PIPE, text=True)
    if ap.returncode != 0:
        print("%s PATCH-NO-LONGER-APPLIES" % n, flush=True)
        meta["recheck"] = {"at": time.strftime("%Y-%m-%d %H:%M"), "note": "patch no longer applies to HEAD"}
        json.dump(meta, open(d + "/meta.json", "w"), indent=1)
        continue
    res = {}
    try:
        for cid in ids:
            p = subprocess.run(["/verif/check", cid], cwd="/verif", stdout=subprocess.PIPE, stderr=subprocess.PIPE, text=True)
            res[cid] = p.returncode
    finally:
        subprocess.run(["git", "-C", "/repo", "checkout", "-q", "--", "."], check=True)
    now = sorted(c for c, rc in res.items() if rc == 1)
    odd = {c: rc for c, rc in res.items() if rc not in (0, 1)}
    meta["recheck"] = {"at": time.strftime("%Y-%m-%d %H:%M"), "checks_run": ids, "reported_by": now, "other_exit_codes": odd}
    json.dump(meta, open(d + "/meta.json", "w"), indent=1)
    lost = bool(meta.get("caught_by")) and not now
    print("%s before=%s now=%s %s%s" % (n, meta.get("caught_by"), now, "LOST" if lost else "", " ODD %s" % odd if odd else ""), flush=True)
