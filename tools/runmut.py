#!/usr/bin/env python3
"""runmut.py <diff> [--tests] <check-id>...  : apply a diff to /repo, optionally run the repo tests, run checks, undo.
NOTE: this patches /repo itself for the duration of the run. While anything else is using /repo (a vp run, another
check) use tools/nsrun.sh instead, which works on a clone mounted over /repo in a private mount namespace."""
import sys, subprocess, os
diff = sys.argv[1]
args = sys.argv[2:]
tests = "--tests" in args
ids = [a for a in args if not a.startswith("--")]
assert subprocess.run(["git", "-C", "/repo", "status", "--porcelain", "--untracked-files=no"], stdout=subprocess.PIPE, text=True).stdout.strip() == "", "repo dirty"
subprocess.run(["git", "-C", "/repo", "apply", os.path.abspath(diff)], check=True)
try:
    if tests:
        p = subprocess.run("cd /repo && cargo test --offline 2>&1 | grep -E 'test result|FAILED|failed|error' | head", shell=True, stdout=subprocess.PIPE, text=True)
        print("TESTS:", p.stdout.strip().replace("\n", " | "))
    for i in ids:
        p = subprocess.run(["/verif/check", i], stdout=subprocess.PIPE, stderr=subprocess.PIPE, text=True, cwd="/verif")
        lines = [l for l in p.stdout.splitlines() if l.startswith(("VIOLATION", "KNOWN"))]
        extra = [l for l in p.stderr.splitlines() if not l.startswith("[build]")][:3]
        print("%s rc=%d %s %s" % (i, p.returncode, lines[:2], extra))
finally:
    subprocess.run(["git", "-C", "/repo", "checkout", "--", "."], check=True)
