#!/bin/sh
# nsseed.sh <PROP> <N> [seedcheck args]   seedcheck.py inside the private mount namespace of nsrun.sh
# (clone of /repo mounted over /repo; separate build, evidence and replay directories)
test -d /tmp/repons2/.git || git clone -q /repo /tmp/repons2
git -C /tmp/repons2 checkout -q -- . && git -C /tmp/repons2 pull -q 2>/dev/null
exec unshare -m sh -c "mount --bind /tmp/repons2 /repo && cd /verif && export VERIF_BUILD_DIR=/verif/.build-ns2 VERIF_EVIDENCE_DIR=/verif/.build-ns2/evidence VERIF_REPLAYS_DIR=/verif/.build-ns2/replays SEEDVW=/tmp/seedverify-ns && if [ \"\$1\" = --setup ]; then ./check --setup; else tools/seedcheck.py $*; fi" sh "$@"
