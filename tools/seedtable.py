#!/usr/bin/env python3
"""Print the markdown tables of /verif/seeded/*/meta.json and /verif/mutants results for DESIGN.md."""
import glob
import json
import os

rows = []
for d in sorted(glob.glob("/verif/seeded/*/meta.json")):
    m = json.load(open(d))
    name = os.path.basename(os.path.dirname(d))
    readme = os.path.join(os.path.dirname(d), "README.md")
    title = ""
    if os.path.exists(readme):
        for l in open(readme):
            l = l.strip().lstrip("# ").strip()
            if l:
                title = l[:110]
                break
    how = "native" if "demo_with_patch_miri" not in m else "miri"
    rc = m.get("recheck", {})
    if not rc and m.get("round") == 9:
        rc = {"reported_by": m.get("caught_by", [])}  # round 9 was run against the final machinery
    final = rc.get("note") or (", ".join(rc.get("reported_by", [])) if rc else "(not re-run)")
    rows.append("| %s | %s | %s | %s | %s | %s | %s |" % (name, title.replace("|", "/"), "yes" if m.get("valid") else "NO", how, "**yes**" if m.get("own_check_catches") else "no", ", ".join(m.get("caught_by", [])), final))
print("| seed | change (first line of the sub-agent's README) | valid | demo decided | own check catches | reported by (all checks, when validated) | reported by (final machinery; only the checks of the previous column and the seed's own were re-run) |")
print("|---|---|---|---|---|---|---|")
print("\n".join(rows))
