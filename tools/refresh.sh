#!/bin/sh
# run every claimed quick check on the clean tree, then validate
cd /verif
test -z "$(git -C /repo status --porcelain --untracked-files=no)" || { echo "repo dirty"; exit 2; }
for id in $(python3 -c "import json;print(' '.join(c['property_id'] for c in json.load(open('MANIFEST.json'))['checks']))"); do
  s=$(date +%s); ./check $id --tier ${1:-quick} > /tmp/refresh_$id.out 2>/tmp/refresh_$id.err; rc=$?; e=$(date +%s)
  echo "$id rc=$rc $((e-s))s $(grep -E 'VIOLATION|KNOWN' /tmp/refresh_$id.out | head -3)"
done
python3-vt validate.py | tail -1
