#!/bin/sh
# run every check against every benign (property-preserving) change in /verif/benign: any VIOLATION or
# non-zero exit here is a false alarm of the machinery
cd /verif
for d in ${@:-benign/*.diff}; do
  echo "=== $d $(date +%H:%M:%S)" >> benign/results.log
  tools/nsrun.sh $d C01 C02 C03 C04 C05 C06 C07 C08 C09 C10 C11 C12 C13 C14 C15 C16 C17 >> benign/results.log 2>&1
done
echo "BENIGN DONE $(date +%H:%M:%S)" >> benign/results.log
