#!/bin/sh
# run every thorough check once (from wherever this copy of /verif lives), log timings
cd "$(dirname "$0")/.."
./check --setup
for id in C01 C02 C03 C04 C05 C06 C07 C08 C09 C10 C11 C12 C13 C14 C15 C16 C17; do
  s=$(date +%s); ./check $id --tier thorough > thorough_$id.out 2> thorough_$id.err; rc=$?; e=$(date +%s)
  echo "$id rc=$rc $((e-s))s $(grep -E 'VIOLATION|MACHINERY' thorough_$id.out thorough_$id.err | head -2)"
  python3 -c "
import json
e=json.load(open('evidence/$id.json')); c=e['coverage']
print('   ', {k:c.get(k) for k in ('states','transitions','evaluations','distinct_nontrivial','exhaustive','caps_hit')})"
done
