#!/bin/sh
# one thorough check from wherever this copy of /verif lives
cd "$(dirname "$0")/.."
./check --setup > /dev/null 2>&1
id=$1
s=$(date +%s); ./check $id --tier thorough > thorough_$id.out 2> thorough_$id.err; rc=$?; e=$(date +%s)
echo "$id rc=$rc $((e-s))s $(grep -E 'VIOLATION|MACHINERY' thorough_$id.out thorough_$id.err | head -2)"
python3 -c "
import json
e=json.load(open('evidence/$id.json')); c=e['coverage']
print('   ', {k:c.get(k) for k in ('states','transitions','evaluations','distinct_nontrivial','exhaustive','caps_hit')})"
