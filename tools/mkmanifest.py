#!/usr/bin/env python3
"""Regenerate /verif/MANIFEST.json from the table below (single source of truth for the interface)."""
import json
HOOK_COMMITS = ["b89d4c1"]  # fix: commits 070411f 400b628 3c1ee3e 01706ac are unguarded repairs, see known_findings.json
CHECKS = {
 "C01": ("model_checking", "seqx", "explicit-state BFS over handle histories on the real crate (re-execution per transition), reference-model + model-independent lifetime invariant",
         "Every reachable state of the bounded handle machine (universes S and SW: sized payload, 8- and 64-aligned, ten handle kinds incl. raw/dyn/erased/arc-swap, plus operations whose Clone panics; T and TW: thin/fat/protected/raw handles with every with_arc_mut behaviour; L: slices and str; <=5 (quick) / <=7 (thorough) live handles, <=2 live allocations) is reached by executing the real crate; in every state a model-independent invariant (value intact while a handle points at its block; destroyed exactly once and block freed when none does) and the reference model's step expectations are checked, and every transition ends with a full release and leak check. This is the right level because C01 quantifies over histories, which the bounded search enumerates to a fixpoint.",
         "bounds on live handles/allocations; arena allocator and tracked payloads trusted; unstable_dropck_eyepatch not built"),
 "C02": ("model_checking", "loomx", "stateless exploration with loom (DPOR + C11 memory model) of the real crate through the atomic shim",
         "For every multiset of small per-thread clone/read/convert/drop programs loom enumerates every interleaving and every legal load result on the crate's real atomics; (each thread owning a handle, or several threads cloning through a shared reference to one handle) loom checks per execution: destroyed once, released once, by one thread, destruction and release ordered after every payload and count access (loom race detector on payload cell and count-word shadow), nothing touched after release.",
         "loom's memory model; 2 spawned threads unbounded, 3-4 preemption-bounded; programs <=3 ops; payload accesses routed through loom cells"),
 "C03": ("model_checking", "seqx+loomx+gridx", "explicit-state BFS (verdict vs owner count in every state) + loom exploration of poll-and-mutate programs + degenerate-payload grid",
         "History half: every gated API in every reachable state (universes S, SW, T, TW, L) grants iff the model has exactly one owner, and a decline returns the same handle; a grid repeats this for zero-sized, over-aligned-zero-sized, empty-slice and empty-str payloads with every co-owner kind. Schedule half: loom explores one polling writer against reading/dropping threads; a granted write must not race with any earlier access and must never be seen by another owner.",
         "as C01 and C02"),
 "C04": ("model_checking", "seqx", "explicit-state BFS with count oracle and counter-write log",
         "After every step of every history the count is read through every accessor of every live handle (and inside borrow callbacks) and must equal the model's owner count; the hook log must show exactly one +1 per clone-style step, one -1 per release and no write at all for moves, conversions, borrows, comparisons.",
         "as C01; counter writes are observed through the cfg(triomphe_verif) shim"),
 "C08": ("model_checking", "seqx+loomx+gridx", "explicit-state BFS (copy-on-write oracle, incl. Clone panics) + loom exploration of writer-vs-readers programs + degenerate-payload grid",
         "History half: make_mut/make_unique/OffsetArc::make_mut in every state: in place iff sole owner, otherwise exactly one Clone, one fresh block, old allocation loses one owner, every other handle still reads the old value. Schedule half: under loom the writer's write never races with or becomes visible to another owner and both branches occur.",
         "as C01 and C02"),
 "C09": ("model_checking", "seqx+loomx", "explicit-state BFS (unwrap oracle) + loom exploration of racing unwrap/drop programs",
         "History half: try_unwrap/try_unique/TryFrom/into_inner/unwrap_or_clone in every state: value out (intact, destructor not run, block freed) iff sole owner, else the same handle back. Schedule half: in every loom execution the value is moved out to at most one thread (which then writes to it: the write must not race with anyone) or destroyed exactly once, and its memory is released once.",
         "as C01 and C02"),
 "C05": ("exploration", "gridx+m32", "exhaustive enumeration of the (header shape x element shape x length x constructor x release path) grid on the real crate under a logging allocator; overflow boundaries in child processes; the overflow and layout grids again on a 32-bit target (i686, executed by Miri)",
         "Every cell of the shape matrix (21 (size,align) points incl. zero-sized and over-aligned, all ordered pairs in the thorough tier) x length x constructor x release path is executed on the real crate; the arena allocator records each request and return: request >= count + payload by the compiler's own layout rules, payload addresses aligned and inside the block, exactly one return of that block with the requested (size, align), no write outside it. Length-only constructors and lying ExactSizeIterators are driven to every overflow boundary in child processes.",
         "shape points and lengths as listed in the evidence rule; arena allocator trusted; exhaustive over the grid, not over all types"),
 "C06": ("exploration", "gridx", "exhaustive enumeration of constructor x length x capacity slack x size_hint regime x element/header class with identity-tracked elements",
         "Every constructor is run for every length 0..=9 (33 thorough), Vec capacity slack, iterator size_hint regime and element/header class with identity-tracked elements: read-back equals input in order and number, nothing is destroyed while the handle lives, after release every input is destroyed exactly once and the source container's storage is gone; Copy sources and every short string over a multibyte alphabet are compared byte for byte.",
         "grid bounds as in the evidence rule"),
 "C07": ("fault_enumeration", "gridx", "exhaustive fault injection: panic at each k-th callback, every lying/changing length script within the stated bounds, each in-window allocation refused (child processes); re-entrant Clone releasing every subset of co-owners x panicking Clone x panicking destructor",
         "For every API that runs user code a fault-free run counts the callbacks and the API is re-run once per k with a panic armed at the k-th callback; iterators additionally lie about their length in every (reported, actual) combination with |diff|<=2 and every 3-answer changing-hint script; every constructor is re-run in a child process once per allocation with that allocation refused. Afterwards survivors are intact with accurate counts, nothing is destroyed twice, no poison is read or destroyed, only the documented half-built allocation may remain, and a refused allocation ends in the allocation-error abort.",
         "fault points are callbacks and allocations, not arbitrary instructions; arena allocator trusted"),
 "C11": ("exploration", "gridx", "exhaustive enumeration of payload shape x handle kind x into/from pairing, addresses compared with the allocator's record",
         "For every shape (sized, slices of several lengths, str, dyn over each sized shape, thin header/element pairs) and every into/from pairing the pointer handed out is compared with the address Deref yields and heap_ptr with the block start recorded by the allocator, across clones and moves; the recovered handle must have the same block, contents and count and release cleanly; handle sizes and Option niches are tabulated. The ThinArc raw accessors deviate and are listed as known findings.",
         "shape matrix as in C05; seqx additionally checks address stability in every explored state"),
 "C12": ("model_checking", "gridx", "bounded exhaustive exploration of union/plain-Arc operation histories per ordered pair of payload shapes, against a two-allocation reference model",
         "For every ordered pair of payload shapes (equal, byte-aligned, zero-sized, over-aligned) every operation history up to depth 6 (7 thorough) with <=4 live handles over {new, from_first, from_second, union clone/drop, borrow->clone_arc, plain Arc drop} is executed on the real crate; after every step each union must report its variant through every accessor, expose the source Arc's value address with bit 0 clear, report the right allocation's count; the destructor that runs and the (block, size, align) returned must be the variant type's.",
         "depth/handle bounds; per-type destructor counters; arena allocator trusted"),
 "C14": ("exploration", "gridx", "exhaustive enumeration of all ordered value pairs of a small domain x handle kind x same/distinct allocation x every operator",
         "All ordered pairs of (3 headers x 40 slices of length <=3 over 3 letters), with recorded lengths true and false, scalars, floats incl. NaN and -0.0 and an equality-only payload, through every handle kind in the same and in distinct allocations: each operator through the handle must equal the operator on the values (NaN licence only for same-allocation ==), header-slice and thin values must order as (header, slice), and ==, !=, <, <=, >, >=, partial_cmp, cmp, hash must be mutually consistent. A seeded sample of larger values is run and labelled as sampling.",
         "value domain as stated; three defects found by this check were repaired (known_findings.json, fixed entries)"),
 "C15": ("exploration", "gridx", "exhaustive enumeration of uninit constructor x length x subset of slots written x continuation",
         "For every uninitialised constructor, length 0..=4 (6 thorough) and every subset of slots written, the handle is dropped before assume_init (no element destructor may run, the header's runs once) or, with all slots written, assumed initialised (same block, bytes, count; no allocator call, no counter write) and then shared, converted and dropped (every element and the header destroyed exactly once). Deprecated Arc::write/as_mut_slice are called in every sharing state: sole -> writes, shared -> documented panic, nothing modified.",
         "lengths as stated"),
 "C13": ("exploration", "typex", "bounded exhaustive enumeration of generated client programs, each decided by the real compiler against the crate's real signatures",
         "What model checking can do for a type-level property is enumerate a finite matrix of client programs and let rustc decide each one against the real crate: 278 auto-trait cells (handle kind x payload class per parameter x {Send,Sync}, plus the generic for-all-T form with each bound removed) whose E0277 set must equal the set the property says is rejected, both directions; 49 borrow-escape cells (borrow source x escape route) each of which must be rejected with a lifetime error in its own function, and 49 positive controls that must compile; every unsafe constructor (from_raw, from_ptr, assume_init, ...) must be E0133 when called from safe code; and a nightly build with unstable_dropck_eyepatch must still reject a handle outliving data its payload's destructor reads. It cannot quantify over all safe programs; that limit is stated in DESIGN.md and the evidence.",
         "finite matrix; rustc is the oracle; a hole outside the matrix is not found"),
 "C16": ("exploration", "gridx", "exhaustive enumeration of starting count x clone entry point x {std, no_std}, one child process per cell",
         "Every cell of (10 starting counts around isize::MAX and usize::MAX) x (16 clone entry points over all handle kinds and borrow callbacks) x (std, no_std builds) runs in its own child process: the count word is located through the hook log and pre-set, the clone is wrapped in catch_unwind; above the limit the child must die by SIGABRT with no handle produced and nothing caught, at or below it the clone returns and adds exactly one. An interference grid interleaves a second clone of the same allocation before each atomic step of the clone under test (through the hook table, deterministically): whenever any increment finds the count already past isize::MAX the process must abort.",
         "the count word is written through the address revealed by the cfg(triomphe_verif) shim; SIGABRT/SIGILL/SIGTRAP count as abort"),
 "C17": ("fault_enumeration", "gridx+loomx", "exhaustive fault injection into a recording serializer and a value-tree deserializer (failure at each k-th callback); loom exploration of every interleaving of deserialize_in_place against readers and releasers of the replaced value",
         "For every value of the payload family (integers, strings, tuples, sequences, options, hand-written struct/enum/newtype+map) and every k the sequence of Serializer calls and the result through Arc<T>/UniqueArc<T> must be identical to those of serialising the value; for every input tree (well-formed and ill-typed) and every k deserialising the handle is Ok iff the value's deserializer is Ok, with an equal value, count 1 and exactly one extra allocation, and on Err the same error and nothing left allocated; deserialize_in_place on a sole or shared place must leave a fresh sole owner (sibling untouched) or, on failure, the place exactly as it was.",
         "two hand-written serde back ends stand for 'every serializer'; serde feature on"),
 "C10": ("model_checking", "seqx+gridx", "explicit-state BFS over thin/fat handle histories incl. every with_arc_mut callback behaviour x {return, panic}; exhaustive recorded-length grid for into_thin",
         "Universe T of the explicit-state search reaches every state of fat, protected, thin, raw and unique handles to header+slice allocations of length 0 and 2 (<=4/5 handles, <=2 allocations); in every state thin and fat views must show the same header, recorded length == slice length, and identical element addresses; conversions keep the block and write no count; every with_arc_mut callback behaviour (nothing, write, clone out, replace by a fresh Arc, swap with another live Arc) with and without a panic must leave the ThinArc pointing at what the callback left and the replaced allocation with exactly one owner less. The grid half calls into_thin for every (true length, recorded length, shape pair, sole/co-owned) and ThinArc::from_header_and_iter under every 3-answer script of ExactSizeIterator::len().",
         "bounds as stated; lengths {0,2} in the search, 0..=4 (6) in the grid"),
}
props = [json.loads(l) for l in open('/verif/properties.jsonl')]
m = {
 "version": 1,
 "setup_cmd": "./setup.sh",
 "hooks": {
  "guard": "--cfg triomphe_verif",
  "enable": "RUSTFLAGS='--cfg triomphe_verif' via /verif/harness/.cargo/config.toml; the harness crates path-depend on /repo",
  "baseline_off_cmd": "cd /repo && cargo test --offline",
  "source_commits": HOOK_COMMITS,
  "add_only": True,
 },
 "engines": [
  {"name": "seqx", "path": "harness/seqx", "serves_properties": ["C01", "C03", "C04", "C08", "C09", "C10", "C11"], "kind_free_text": "explicit-state BFS over handle histories; each transition re-executes the history on the real crate under the arena allocator and compares with a reference model"},
  {"name": "gridx", "path": "harness/gridx", "serves_properties": ["C03", "C08", "C09", "C05", "C06", "C07", "C10", "C11", "C12", "C14", "C15", "C16", "C17"], "kind_free_text": "exhaustive enumeration of finite shape / input / fault grids, each cell executed on the real crate under the arena allocator"},
  {"name": "typex", "path": "lib/typex.py", "serves_properties": ["C13"], "kind_free_text": "generator of client probe crates + cargo check driver; rustc decides each cell"},
  {"name": "mwalk", "path": "harnessm", "serves_properties": ["C01", "C08"], "kind_free_text": "every operation sequence up to depth 3/5 over every handle kind, re-executed from scratch on the real crate by the Miri interpreter (aliasing-model checks off), plus a small reference model; 16 shards"},
  {"name": "typex-api", "path": "lib/typex.py", "serves_properties": ["C01", "C03", "C04", "C06", "C08", "C09", "C10", "C12", "C15"], "kind_free_text": "generated client functions that rustc must reject because a bound, receiver or by-value parameter of the real API forbids them, each with a positive control"},
  {"name": "m32", "path": "harness32", "serves_properties": ["C05"], "kind_free_text": "the C05 overflow-boundary and layout grids on the real crate compiled for i686 and executed by the Miri interpreter (usize = 32 bits), 16 shards"},
  {"name": "loomx", "path": "harness/loomx", "serves_properties": ["C02", "C03", "C04", "C08", "C09", "C17"], "kind_free_text": "loom 0.7.2 stateless exploration of thread programs on the real crate through the cfg(triomphe_verif) atomic shim"},
 ],
 "checks": [],
 "notes": "see DESIGN.md; known findings in known_findings.json",
 "not_applicable": [],
}
for p in props:
    pid = p["id"]
    if pid in CHECKS:
        lvl, eng, tech, text, note = CHECKS[pid]
        extra_text = {
            "C01": " Added later: every operation sequence up to depth 3 (quick) / 5 (thorough) over all handle kinds is also re-executed under the Miri interpreter (use after free, double free, wrong deallocation layout, uninitialised or misaligned reads stop the run at the history in flight); every universe is also explored with three live allocations; API obligations (private pointer fields, Copy bound of the bitwise constructors) are decided by rustc.",
            "C03": " Added later: the unwrap operations are writers of the loom sets too; UniqueArc not Clone/Copy, shared handles not DerefMut, &mut receivers: decided by rustc, with a behavioural second stage where a correct generalisation could lift the obligation.",
            "C04": " Added later: loom sets in which several threads clone through a shared reference to one handle (final count == handles left); consuming conversions decided by rustc.",
            "C05": " Added later: the overflow-boundary grid and a layout grid run again on a 32-bit target (i686) under the Miri interpreter.",
            "C06": " Added later: lengths 2^k-1, 2^k, 2^k+1 up to 1025 (quick) / 4097 (thorough; 32769 for Copy slices), sized values of 4 KiB / 64 KiB / 256 KiB, every constructor also executed while the thread is unwinding from an unrelated panic; Copy bounds of the bitwise constructors decided by rustc (second stage: element-wise clones).",
            "C07": " Added later: payload Clone impls that re-entrantly release or add co-owners, panicking destructors (also inside make_mut and inside a with_arc_mut replacement), panicking serde callbacks, iterator faults at lengths around 128 / 1024 / 4096, every constructor and the make_mut family while the thread is already unwinding.",
            "C08": " Added later: the Miri walk over all handle kinds for a 32-bit target (i686); conservation of the old allocation under loom; Clone bounds and &mut receivers decided by rustc.",
            "C09": " Added later: the unwrap rows of the degenerate-payload / big-count grid (counts such as 2^32 + 1 with two real owners).",
            "C02": " Added later: the same races with 18 / 40 extra owners held by the main thread (count-dependent paths).",
            "C10": " Added later: header + zero-sized-element slices with isize::MAX-1 .. usize::MAX elements converted between fat and thin.",
            "C14": " Added later: recorded lengths at isize::MAX, 2^63 and usize::MAX; provided Ord/Hash methods through handles; zero-sized scalars ((), a unit struct with its own Debug/Hash/order, a unit struct equal to nothing) through every handle kind.",
            "C15": " Added later: zero-sized headers and elements that have destructors.",
            "C16": " Added later: clone_from entry points (direct, Vec, Option); every over-limit cell also with standard error unwritable and closed.",
            "C17": " Added later: every grid also with a (de)serializer whose is_human_readable() is false; panicking callbacks; loom exploration of deserialize_in_place against concurrent readers and releasers; zero-sized payloads ((), PhantomData, [u8;0], ((),()), a hand-written unit struct) and a payload size ladder [u64;1..32] (8..256 bytes) in the serialize, deserialize and in-place grids.",
        }
        text += extra_text.get(pid, "")
        if pid == "C04":
            eng += "+loomx"
            tech += "; loom exploration of threads cloning through a shared reference to one handle (final count == handles left)"
        if pid == "C08":
            eng += "+mwalk"
            tech += "; every operation sequence up to depth 3/4 over every handle kind re-executed under the Miri interpreter for a 32-bit target (i686)"
        if pid == "C01":
            eng += "+mwalk"
            tech += "; every operation sequence up to depth 3/5 over every handle kind re-executed under the Miri interpreter"
        if pid in ("C01", "C03", "C04", "C06", "C08", "C09", "C10", "C12", "C15"):
            eng += "+typex-api"
            tech += "; the API obligations this property relies on (bounds, receivers, by-value parameters) enumerated as client programs and decided by rustc"
        m["checks"].append({
            "property_id": pid,
            "quick_cmd": "./check %s --tier quick" % pid,
            "thorough_cmd": "./check %s --tier thorough" % pid,
            "evidence_file": "/verif/evidence/%s.json" % pid,
            "replay_cmd_template": "./check %s --replay {path}" % pid,
            "engine": eng,
            "level_claimed": {"category": lvl, "text": text, "design_ref": "DESIGN.md §3 " + pid},
            "level_note": note,
            "technique": tech,
        })
    else:
        m["not_applicable"].append({"property_id": pid, "reason": "check not built yet (planned in-family, see DESIGN.md §3 %s); not claimed until its engine exists" % pid})
json.dump(m, open('/verif/MANIFEST.json', 'w'), indent=1)
print("checks:", [c["property_id"] for c in m["checks"]])
