#!/usr/bin/env python3
"""Regenerate /verif/MANIFEST.json from the table below (single source of truth for the interface)."""
import json
HOOK_COMMITS = ["b89d4c1"]
CHECKS = {
 "C01": ("model_checking", "seqx", "explicit-state BFS over handle histories on the real crate (re-execution per transition), reference-model + model-independent lifetime invariant",
         "Every reachable state of the bounded handle machine (all handle kinds and conversion paths, <=4/5 live handles, <=2 live allocations) is reached by executing the real crate; in every state a model-independent invariant (value intact while a handle points at its block; destroyed exactly once and block freed when none does) and the reference model's step expectations are checked, and every transition ends with a full release and leak check. This is the right level because C01 quantifies over histories, which the bounded search enumerates to a fixpoint.",
         "bounds on live handles/allocations; arena allocator and tracked payloads trusted; unstable_dropck_eyepatch not built"),
 "C02": ("model_checking", "loomx", "stateless exploration with loom (DPOR + C11 memory model) of the real crate through the atomic shim",
         "For every multiset of small per-thread clone/read/convert/drop programs loom enumerates every interleaving and every legal load result on the crate's real atomics; per execution: destroyed once, released once, by one thread, destruction and release ordered after every payload and count access (loom race detector on payload cell and count-word shadow), nothing touched after release.",
         "loom's memory model; 2 spawned threads unbounded, 3-4 preemption-bounded; programs <=3 ops; payload accesses routed through loom cells"),
 "C03": ("model_checking", "seqx+loomx", "explicit-state BFS (verdict vs owner count in every state) + loom exploration of poll-and-mutate programs",
         "History half: every gated API in every reachable state grants iff the model has exactly one owner, and a decline returns the same handle. Schedule half: loom explores one polling writer against reading/dropping threads; a granted write must not race with any earlier access and must never be seen by another owner.",
         "as C01 and C02"),
 "C04": ("model_checking", "seqx", "explicit-state BFS with count oracle and counter-write log",
         "After every step of every history the count is read through every accessor of every live handle (and inside borrow callbacks) and must equal the model's owner count; the hook log must show exactly one +1 per clone-style step, one -1 per release and no write at all for moves, conversions, borrows, comparisons.",
         "as C01; counter writes are observed through the cfg(triomphe_verif) shim"),
 "C08": ("model_checking", "seqx+loomx", "explicit-state BFS (copy-on-write oracle) + loom exploration of writer-vs-readers programs",
         "History half: make_mut/make_unique/OffsetArc::make_mut in every state: in place iff sole owner, otherwise exactly one Clone, one fresh block, old allocation loses one owner, every other handle still reads the old value. Schedule half: under loom the writer's write never races with or becomes visible to another owner and both branches occur.",
         "as C01 and C02"),
 "C09": ("model_checking", "seqx+loomx", "explicit-state BFS (unwrap oracle) + loom exploration of racing unwrap/drop programs",
         "History half: try_unwrap/try_unique/TryFrom/into_inner/unwrap_or_clone in every state: value out (intact, destructor not run, block freed) iff sole owner, else the same handle back. Schedule half: in every loom execution the value is moved out to at most one thread or destroyed exactly once and its memory is released once.",
         "as C01 and C02"),
}
props = [json.loads(l) for l in open('/verif/properties.jsonl')]
m = {
 "version": 1,
 "setup_cmd": "./setup.sh",
 "hooks": {
  "guard": "--cfg triomphe_verif",
  "enable": "RUSTFLAGS='--cfg triomphe_verif' via /verif/harness/.cargo/config.toml; the harness crates path-depend on /repo",
  "baseline_off_cmd": "cd /repo && cargo test --offline",
  "source_commits": HOOK_COMMITS,
  "add_only": True,
 },
 "engines": [
  {"name": "seqx", "path": "harness/seqx", "serves_properties": ["C01", "C03", "C04", "C08", "C09"], "kind_free_text": "explicit-state BFS over handle histories; each transition re-executes the history on the real crate under the arena allocator and compares with a reference model"},
  {"name": "loomx", "path": "harness/loomx", "serves_properties": ["C02", "C03", "C08", "C09"], "kind_free_text": "loom 0.7.2 stateless exploration of thread programs on the real crate through the cfg(triomphe_verif) atomic shim"},
 ],
 "checks": [],
 "notes": "see DESIGN.md; known findings in known_findings.json",
 "not_applicable": [],
}
for p in props:
    pid = p["id"]
    if pid in CHECKS:
        lvl, eng, tech, text, note = CHECKS[pid]
        m["checks"].append({
            "property_id": pid,
            "quick_cmd": "./check %s --tier quick" % pid,
            "thorough_cmd": "./check %s --tier thorough" % pid,
            "evidence_file": "/verif/evidence/%s.json" % pid,
            "replay_cmd_template": "./check %s --replay {path}" % pid,
            "engine": eng,
            "level_claimed": {"category": lvl, "text": text, "design_ref": "DESIGN.md §3 " + pid},
            "level_note": note,
            "technique": tech,
        })
    else:
        m["not_applicable"].append({"property_id": pid, "reason": "check not built yet (planned in-family, see DESIGN.md §3 %s); not claimed until its engine exists" % pid})
json.dump(m, open('/verif/MANIFEST.json', 'w'), indent=1)
print("checks:", [c["property_id"] for c in m["checks"]])
