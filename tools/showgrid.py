#!/usr/bin/env python3
import json,sys
for g in json.load(open(sys.argv[1])):
    v=g.pop('violations'); n=g.pop('notes'); s=g.pop('samples'); g.pop('rule')
    print(json.dumps(g)[:400]); print(' violations',len(v),'notes',len(n))
    for x in s[:3]: print('   sample',x[:200])
    seen=set()
    for x in v:
        if x['code'] in seen: continue
        seen.add(x['code']); print('  ',x['code'],'|',x['case'],'|',x['msg'][:300])
