#!/usr/bin/env python3
"""Validate MANIFEST.json and evidence/*.json against the task schemas (uses the tooling venv)."""
import json, sys, glob
import jsonschema
m = json.load(open('/verif/MANIFEST.json'))
jsonschema.validate(m, json.load(open('/root/.vp/MANIFEST.schema.json')))
props = [json.loads(l)['id'] for l in open('/verif/properties.jsonl')]
claimed = [c['property_id'] for c in m['checks']]
na = [c['property_id'] for c in m.get('not_applicable', [])]
assert sorted(claimed + na) == sorted(props), (sorted(claimed + na), props)
es = json.load(open('/root/.vp/EVIDENCE.schema.json'))
for f in sorted(glob.glob('/verif/evidence/*.json')):
    e = json.load(open(f))
    jsonschema.validate(e, es)
    lvl = [c for c in m['checks'] if c['property_id'] == e['property_id']]
    if lvl:
        assert lvl[0]['level_claimed']['category'] == e['level'], f
    print('ok', f, e['level'], e['tier'], e['wall_s'])
print('manifest ok; claimed', claimed)
